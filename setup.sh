#!/bin/bash
# setup: build the framework from files on disk only (offline) and warm the Go build cache
set -e
cd /verif
tools/build.sh
# warm the build cache for the instrumented worker (plain and -race) so quick checks start fast
MXSIM_WARM=1 bin/mxsim warm || true
