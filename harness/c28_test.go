package h

// C28: function IDs are unique and released when programs finish. Several
// generated programs run concurrently from several root tasks in one bubble; a
// monitor task samples the FID table; at quiescence the table must hold nothing
// these programs created.

import (
	"encoding/json"
	"fmt"
	"regexp"
	"sort"
	"strings"
	"time"

	"github.com/lmorg/murex/builtins/pipes/streams"
	"github.com/lmorg/murex/lang"
	"github.com/lmorg/murex/utils/simrt"
)

type c28W struct {
	Progs   []c03W `json:"progs"`
	Loops   []c39W `json:"loops,omitempty"` // same length as Progs: when Loops[i].Main is set, root i runs that break/continue/return program instead
	Monitor int    `json:"monitor"` // samples taken by the monitor task
	Limit   int    `json:"limit"`
}

func init() {
	register(&Harness{Name: "c28", Gen: genC28, Run: runC28, Shrink: shrinkC28, Init: initMurex})
	propHarness["C28"] = "c28"
}

func genC28(r *Rand, tier string) Case {
	var w c28W
	n := 1 + r.Intn(4)
	w.Loops = make([]c39W, n)
	for i := 0; i < n; i++ {
		if r.Intn(2) == 0 {
			// asynchronous cancellation (break/continue/return, also out of loops that feed pipelines) racing
			// with commands that are just starting: the processes must still all be released
			_, lw := genC39Once(r, tier, 12)
			w.Loops[i] = lw
			w.Progs = append(w.Progs, c03W{})
			continue
		}
		var g *c03gen
		var p c03W
		for budget := 14; ; budget = budget*2/3 + 1 {
			// keep the program small (see c03Cost): the step budget is there to detect hangs
			g = &c03gen{r: r, budget: budget, fpfx: fmt.Sprintf("r%d", i)}
			p = c03W{Pfx: g.fpfx, NoPre: true}
			nf := r.Intn(3)
			var fcost []int
			for k := 0; k < nf; k++ {
				p.Funcs = append(p.Funcs, g.block(1, true, 1+r.Intn(3)))
				fcost = append(fcost, 1+c03Cost(p.Funcs[k], nil))
			}
			g.nfuncs = nf
			p.Main = g.block(0, false, 1+r.Intn(5))
			if c03Cost(p.Main, fcost) <= 400 || budget <= 3 {
				break
			}
		}
		// statements that end processes the unusual way
		for k := 0; k < r.Intn(3); k++ {
			var s string
			switch r.Intn(6) {
			case 0: // argument that cannot be converted: the call fails before the body runs
				s = fmt.Sprintf("function %stc (x: int) { out $x }\n%stc abc", g.fpfx, g.fpfx)
			case 1:
				s = fmt.Sprintf("function %std (x: int) { out $x }\n%std 7", g.fpfx, g.fpfx)
			case 2:
				s = fmt.Sprintf("function %srt { out a; return 3; out b }\n%srt", g.fpfx, g.fpfx)
			case 3:
				s = "a [1..6] -> foreach bv { if { $bv == 2 } then { break foreach }; out $bv }"
			case 4:
				s = "try { out t1; mxfail; out t2 }"
			default:
				s = "trypipe { out p1 -> regexp s/p/q/; mxfail -> out never }"
			}
			at := r.Intn(len(p.Main) + 1)
			p.Main = append(p.Main[:at:at], append([]pnode{{T: "raw", S: s}}, p.Main[at:]...)...)
		}
		w.Progs = append(w.Progs, p)
	}
	w.Monitor = 5 + r.Intn(40)
	w.Limit = []int{0, 0, 1, 8, 128}[r.Intn(5)]
	return Case{Class: fmt.Sprintf("roots-%d", n), W: mustJSON(w), Sched: interpSched(r, 1500*n)}
}

var c28Rename = regexp.MustCompile(`\blf(\d+)\b`)

func fidSnapshot() map[uint32]*lang.Process {
	m := map[uint32]*lang.Process{}
	for _, p := range lang.GlobalFIDs.ListAll() {
		m[p.Id] = p
	}
	return m
}

func runC28(c *Case, e *Env) Outcome {
	var w c28W
	if err := json.Unmarshal(c.W, &w); err != nil {
		return Outcome{Verdict: "inconclusive", Clause: "bad-case", Detail: err.Error()}
	}
	srcs := make([]string, len(w.Progs))
	for i := range w.Progs {
		if i < len(w.Loops) && len(w.Loops[i].Main) > 0 {
			// function names are global: give this root's functions their own names
			srcs[i] = c28Rename.ReplaceAllString(w.Loops[i].source(), fmt.Sprintf("r%dlf$1", i))
			continue
		}
		srcs[i] = w.Progs[i].source()
	}
	all := strings.Join(srcs, "\n# ---- next root\n")
	var viol, clause string
	fail := func(cl, f string, a ...any) {
		if viol == "" {
			clause, viol = cl, fmt.Sprintf(f, a...)
		}
	}
	var leftover []string
	var crash string
	res := e.Bubble(c.Sched, func() {
		before := fidSnapshot()
		execBlock("function mxfail { return 3 }", "murex/mxsim-pre")
		owner := map[uint32]*lang.Process{} // every binding ever observed
		observe := func(where string) {
			list := lang.GlobalFIDs.ListAll()
			seen := map[uint32]bool{}
			for _, p := range list {
				id := p.Id
				if seen[id] {
					fail("fid-shared", "%s: FID %d is listed for two processes at once", where, id)
				}
				seen[id] = true
				if q, ok := owner[id]; ok && q != p {
					fail("fid-reused", "%s: FID %d was bound to process %q and is now bound to another process %q", where, id, q.Name.String(), p.Name.String())
				}
				owner[id] = p
			}
		}
		done := make(chan blockResult, len(srcs))
		// the capture streams of every root are created with the production limit (nobody drains them
		// until the program returns); the knob applies to the pipes the programs create
		forks := make([]*lang.Fork, len(srcs))
		for i := range srcs {
			forks[i] = newFork(fmt.Sprintf("murex/mxsim-root%d", i))
		}
		if w.Limit > 0 {
			save := streams.DefaultMaxBufferSize
			streams.DefaultMaxBufferSize = w.Limit
			defer func() { streams.DefaultMaxBufferSize = save }()
		}
		for i := range srcs {
			i := i
			simrt.Go(func() {
				done <- runFork(forks[i], srcs[i])
			})
		}
		simrt.Go(func() {
			for k := 0; k < w.Monitor; k++ {
				observe("while programs run")
				simrt.Yield("c28-monitor")
			}
		})
		for range srcs {
			r := <-done
			if ct := crashText(r.Out + r.Err + r.ExecErr); ct != "" && crash == "" {
				crash = ct
			}
		}
		observe("when the programs returned")
		time.Sleep(10 * time.Second) // quiet session: every delayed deregistration has had its chance
		observe("at quiescence")
		after := fidSnapshot()
		var ids []int
		for id := range after {
			if _, was := before[id]; !was {
				ids = append(ids, int(id))
			}
		}
		sort.Ints(ids)
		for _, id := range ids {
			p := after[uint32(id)]
			leftover = append(leftover, fmt.Sprintf("%d:%s:%s", id, p.Name.String(), p.State.String()))
		}
	})
	if res.Panic != "" {
		return Outcome{Verdict: "panic", Clause: "panic", Detail: res.Panic}
	}
	if crash != "" {
		return violation("internal-panic", "programs:\n%s\nreported: %s", all, crash)
	}
	if viol != "" {
		return violation(clause, "%s\nprograms:\n%s", viol, all)
	}
	if len(leftover) > 0 {
		// name the kind of process left behind so that different leaks are different clauses
		kinds := map[string]bool{}
		for _, l := range leftover {
			parts := strings.SplitN(l, ":", 3)
			name := parts[1]
			if strings.HasPrefix(name, "r") && len(name) > 2 && name[1] >= '0' && name[1] <= '9' {
				name = name[2:] // strip the per-root prefix
			}
			_ = name
			kinds[parts[2]] = true // the state the leaked process was left in (names are in the detail)
		}
		var ks []string
		for k := range kinds {
			ks = append(ks, k)
		}
		sort.Strings(ks)
		// remove them so that later cases of the batch start clean
		for _, l := range leftover {
			var id uint32
			fmt.Sscanf(l, "%d:", &id)
			lang.GlobalFIDs.Deregister(id)
		}
		return violation("fid-leak["+strings.Join(ks, ",")+"]", "10 simulated seconds after every program returned the FID table still holds %v\nprograms:\n%s", leftover, all)
	}
	return okOutcome()
}

func shrinkC28(c *Case) []Case {
	var w c28W
	json.Unmarshal(c.W, &w)
	var out []Case
	emit := func(v c28W) {
		out = append(out, Case{Class: fmt.Sprintf("roots-%d", len(v.Progs)), W: mustJSON(v), Sched: c.Sched})
	}
	for i := range w.Progs {
		if len(w.Progs) > 1 {
			v := w
			v.Progs = append(append([]c03W{}, w.Progs[:i]...), w.Progs[i+1:]...)
			if len(w.Loops) == len(w.Progs) {
				v.Loops = append(append([]c39W{}, w.Loops[:i]...), w.Loops[i+1:]...)
			}
			emit(v)
		}
	}
	for i := range w.Progs {
		for _, m := range shrinkNodes(w.Progs[i].Main) {
			if len(m) == 0 {
				continue
			}
			v := w
			v.Progs = append([]c03W{}, w.Progs...)
			v.Progs[i].Main = m
			emit(v)
		}
		for k := range w.Progs[i].Funcs {
			for _, f := range shrinkNodes(w.Progs[i].Funcs[k]) {
				v := w
				v.Progs = append([]c03W{}, w.Progs...)
				v.Progs[i].Funcs = append([][]pnode{}, w.Progs[i].Funcs...)
				v.Progs[i].Funcs[k] = f
				emit(v)
			}
		}
	}
	if w.Monitor > 1 {
		v := w
		v.Monitor = 1
		emit(v)
	}
	if w.Limit != 0 {
		v := w
		v.Limit = 0
		emit(v)
	}
	for _, st := range []string{"rr", "pb0"} {
		if c.Sched.Strategy != st {
			v := *c
			v.Sched.Strategy = st
			out = append(out, v)
		}
	}
	return out
}
