package h

// C15: array streams round-trip; foreach visits each element once.
//
// Two workload families in one harness:
//   comp*    a producer task writes a generated list through pipe.WriteArray(dt) into a
//            streams.Stdin while a consumer task reads it with ReadArray / ReadArrayWithType
//            (buffer-limit knob on; class comp-stall: the serialised bytes are re-chunked by a
//            harness-owned relay that stalls in the middle of elements, F-endpoint);
//   foreach* a murex program `tout <dt> <serialised list> -> foreach x { out "<$x>" }` under K
//            seeded schedules.
// Types are enumerated at run time from stdio.DumpReadArray ∩ stdio.DumpWriteArray.
// Oracle (from the statement): the callback sequence / the foreach output is the input list, in
// order, once each, verbatim.

import (
	"context"
	"encoding/json"
	"fmt"
	"strconv"
	"strings"
	"sync"
	"time"
	"unicode"
	"unicode/utf8"

	"github.com/lmorg/murex/builtins/pipes/streams"
	"github.com/lmorg/murex/lang"
	"github.com/lmorg/murex/lang/stdio"
	"github.com/lmorg/murex/utils/simrt"
	yaml "gopkg.in/yaml.v3"
)

// c15Elem is one element in explicit but compact form: S + fill + T, where fill is at most N bytes
// of the pattern Fill cycled ("#": the decimal counter 0.1.2.3.…, so that position errors show).
type c15Elem struct {
	S    string `json:"s,omitempty"`
	Fill string `json:"fill,omitempty"`
	N    int    `json:"n,omitempty"`
	T    string `json:"t,omitempty"`
}

func (e c15Elem) str() string {
	if e.N <= 0 || e.Fill == "" {
		return e.S + e.T
	}
	var b strings.Builder
	b.Grow(len(e.S) + len(e.T) + e.N)
	b.WriteString(e.S)
	if e.Fill == "#" {
		n := 0
		for k := 0; n < e.N; k++ {
			s := strconv.Itoa(k) + "."
			if n+len(s) > e.N {
				s = s[:e.N-n]
			}
			b.WriteString(s)
			n += len(s)
		}
	} else {
		rs := []rune(e.Fill)
		for i, n := 0, 0; ; i++ {
			r := rs[i%len(rs)]
			if n += utf8.RuneLen(r); n > e.N {
				break
			}
			b.WriteRune(r)
		}
	}
	b.WriteString(e.T)
	return b.String()
}

type c15Stall struct {
	At     int `json:"at"`               // before element At (direct producer) / before chunk At (relay)
	Yields int `json:"yields,omitempty"` // harness-level scheduling points
	Ms     int `json:"ms,omitempty"`     // simulated milliseconds of sleep
}

type c15W struct {
	Mode  string    `json:"mode"` // comp | foreach
	DT    string    `json:"dt"`
	Elems []c15Elem `json:"elems"`
	// comp
	Max    int        `json:"max,omitempty"`    // streams.DefaultMaxBufferSize knob
	Typed  bool       `json:"typed,omitempty"`  // consumer: ReadArrayWithType instead of ReadArray
	Bytes  bool       `json:"bytes,omitempty"`  // producer: ArrayWriter.Write([]byte) instead of WriteString
	Relay  []int      `json:"relay,omitempty"`  // F-endpoint: serialised stream re-chunked with these sizes (cycled)
	Stalls []c15Stall `json:"stalls,omitempty"` // producer stalls
	// foreach
	K      int   `json:"k,omitempty"`
	Limits []int `json:"limits,omitempty"`
	Style  int   `json:"style,omitempty"` // serialisation style (yaml: 0 double-quoted, 1 single-quoted where possible, 2 plain where safe; line formats: odd = last line unterminated; json: separator/escaping variants)
	Lit    bool  `json:"lit,omitempty"`   // the list is a single-quoted literal in the program text (else a str variable set by the harness)
	Raw    bool  `json:"raw,omitempty"`   // jsonl: lines are arbitrary legal strings, not necessarily JSON documents (class foreach-rawline)
}

// alphabet mode: foreach over jsonl binds each line as a json value, so its default lists are JSON documents
func (w *c15W) amode() string {
	if w.Raw {
		return "comp"
	}
	return w.Mode
}

func init() {
	register(&Harness{Name: "c15", Gen: genC15, Run: runC15, Shrink: shrinkC15, Init: initC15})
	propHarness["C15"] = "c15"
}

// ---------------------------------------------------------------- types under test

type c15TypeInfo struct {
	all         []string // registered with both ReadArray and WriteArray, sorted
	usable      []string // ... whose WriteArray constructor works
	unsupported []string // ... whose WriteArray constructor refuses (cannot write arrays)
}

var (
	c15TypesOnce sync.Once
	c15TI        c15TypeInfo
)

// types the statement names: for these a refusing constructor is a violation, not "cannot write arrays"
var c15Named = map[string]bool{"str": true, "*": true, "json": true, "jsonl": true, "yaml": true}

func c15Types() *c15TypeInfo {
	c15TypesOnce.Do(func() {
		rd := map[string]bool{}
		for _, n := range stdio.DumpReadArray() {
			rd[n] = true
		}
		for _, n := range stdio.DumpWriteArray() { // sorted by murex
			if !rd[n] {
				continue
			}
			c15TI.all = append(c15TI.all, n)
			_, err := stdio.WriteArray(streams.NewStdin(), n)
			if err != nil && !c15Named[n] {
				c15TI.unsupported = append(c15TI.unsupported, n)
			} else {
				c15TI.usable = append(c15TI.usable, n)
			}
		}
	})
	return &c15TI
}

func initC15(j *Job) {
	initMurex(j)
	ti := c15Types()
	have := map[string]bool{}
	for _, n := range ti.all {
		have[n] = true
	}
	for n := range c15Named {
		if !have[n] {
			panic("C15: type " + n + " named by the property is not registered with both ReadArray and WriteArray")
		}
	}
}

// per-type legal alphabets (property quantifier). kind of constraint per type:
func c15LineType(dt string) bool { return dt == "str" || dt == "string" || dt == "jsonl" }

// c15NoEdgeWS: no leading/trailing whitespace (statement: str, jsonl; harness decision: xml, where
// whitespace-only text and edge whitespace are processor-defined)
func c15NoEdgeWS(dt string) bool { return c15LineType(dt) || dt == "xml" }
func c15Generic(dt string) bool  { return dt == "*" || dt == "generic" }
func c15Known(dt string) bool {
	switch dt {
	case "str", "string", "jsonl", "*", "generic", "json", "yaml", "xml", "jsonc", "path", "paths", "toml":
		return true
	}
	return false
}

// c15Legal: is s a legal element for dt (mode matters for jsonl: foreach binds the line as a json value)
func c15Legal(dt, mode, s string) bool {
	if !utf8.ValidString(s) {
		return false
	}
	for _, r := range s {
		if r < 0x20 && r != '\t' || r == 0x7f || r == 0x85 || r == 0x2028 || r == 0x2029 || r == 0xfeff {
			return false // single-line elements: no newline of any kind, no other control characters
		}
		if r >= 'A' && r <= 'Z' {
			return false // `out` expands {CONST} names; keep the observer out of the way
		}
	}
	edgeWS := func() bool {
		if s == "" {
			return false
		}
		f, _ := utf8.DecodeRuneInString(s)
		l, _ := utf8.DecodeLastRuneInString(s)
		return unicode.IsSpace(f) || unicode.IsSpace(l)
	}
	switch {
	case c15LineType(dt):
		if edgeWS() {
			return false
		}
		if dt == "jsonl" && mode == "foreach" && s != "" && !json.Valid([]byte(s)) {
			return false
		}
	case c15Generic(dt):
		if strings.ContainsRune(s, '\t') {
			return false
		}
	case dt == "xml":
		if edgeWS() {
			return false
		}
	case dt == "json", dt == "yaml":
	case dt == "jsonc":
		if len(s) < 2 || (s[0] != '{' && s[0] != '[') || !json.Valid([]byte(s)) {
			return false
		}
	case dt == "path":
		if s == "" || s == "." || s == ".." || strings.ContainsRune(s, '/') {
			return false
		}
	case dt == "paths":
		if strings.ContainsRune(s, ':') {
			return false
		}
	default: // a type registered after this harness was written: plain words only
		if s == "" {
			return false
		}
		for _, r := range s {
			if !(r >= 'a' && r <= 'z' || r >= '0' && r <= '9') {
				return false
			}
		}
	}
	return true
}

// c15EmptyCovered: does the statement cover an empty element for this type? (see report)
func c15EmptyCovered(dt string) bool {
	switch dt {
	case "jsonc", "path":
		return false // a JSON document / a path component cannot be empty
	}
	return c15Known(dt)
}

// ---------------------------------------------------------------- generator

var c15Specials = []string{
	"123", "-5", "1.50", "1e3", "0123", "0x1f", ".5", "+1", "1_000", "null", "true", "false", "~", "yes", "no", "on", "off",
	"- x", "-x", "-", "--", "#x", "a #b", "a#b", "k: v", "k:v", "k :v", ": v", "\"q\"", "'q'", "a\"b", "a'b", "a\\b", "a\\", "\\n", "\\\"",
	"{a}", "[a]", "{\"a\":1}", "[1,2]", "{", "}", "[", "]", "*", "&a", "*a", "!x", "!!str x", "|", ">", ">-", "%x", "@x", "`x`", "?", "? x", "a,b", ",",
	"<e>", "</e>", "a&b", "&amp;", "<!-- c -->", "$x", "${x}", "$(out x)", "@{x}", "=", "==", "<<", "2001-01-01", "12:30:45", "a=b&c=d",
	"é", "日本語", "😀", "e\u0301", "ß", "ｆｕｌｌ", "a\u00a0b", "a\u200bb", "\u00a0", "\u2003x",
	"a  b", "a b c", " lead", "trail ", "  both  ", "\ttab", "a\tb", "tab\t", " ", "  ", "\t",
}

var c15Fills = []string{"#", "#", "ab", "xyz0123", "é日", "a b", "q\"\\", "😀-", "k: ", "#;", "<&>", "0"}

func c15Word(r *Rand) string {
	const al = "abcdefghijklmnopqrstuvwxyz0123456789"
	n := 1 + r.Intn(8)
	b := make([]byte, n)
	for i := range b {
		b[i] = al[r.Intn(len(al))]
	}
	return string(b)
}

func c15RawString(r *Rand) string {
	switch r.Intn(10) {
	case 0, 1, 2:
		return c15Word(r)
	case 3:
		n := 2 + r.Intn(4)
		w := make([]string, n)
		for i := range w {
			w[i] = c15Word(r)
		}
		return strings.Join(w, " ")
	case 4, 5, 6:
		return c15Specials[r.Intn(len(c15Specials))]
	default:
		n := 2 + r.Intn(5)
		var b strings.Builder
		for i := 0; i < n; i++ {
			if r.Bool() {
				b.WriteString(c15Specials[r.Intn(len(c15Specials))])
			} else {
				b.WriteString(c15Word(r))
			}
		}
		return b.String()
	}
}

// c15Sanitise maps an arbitrary generated string into dt's legal alphabet
func c15Sanitise(dt, mode, s string) string {
	switch {
	case c15LineType(dt):
		s = strings.TrimFunc(s, unicode.IsSpace)
		if dt == "jsonl" && mode == "foreach" {
			return c15JSONDoc(s, len(s)%5)
		}
	case c15Generic(dt):
		s = strings.ReplaceAll(s, "\t", " ")
	case dt == "xml":
		s = strings.TrimFunc(s, unicode.IsSpace)
	case dt == "json", dt == "yaml":
	case dt == "jsonc":
		return c15JSONDoc(s, 3+len(s)%6)
	case dt == "path":
		s = strings.ReplaceAll(s, "/", "_")
		if s == "." || s == ".." {
			s = "dot"
		}
	case dt == "paths":
		s = strings.ReplaceAll(s, ":", ";")
	default:
		var b strings.Builder
		for _, r := range s {
			if r >= 'a' && r <= 'z' || r >= '0' && r <= '9' {
				b.WriteRune(r)
			}
		}
		s = b.String()
	}
	return s
}

// c15JSONDoc: a single-line JSON document carrying s (kind 0 string, 1 number, 2 literal, 3.. objects and arrays)
func c15JSONDoc(s string, kind int) string {
	q, _ := json.Marshal(s)
	switch kind {
	case 1:
		return strconv.Itoa(len(s)*37 - 50)
	case 2:
		return []string{"true", "false", "null", "1.50", "-0.25"}[len(s)%5]
	case 3:
		return "{\"k\": " + string(q) + "}"
	case 4:
		return "[" + string(q) + "]"
	case 5:
		return "{\"k\": " + string(q) + ", \"n\": [1, {\"x\": null}]}"
	case 6:
		return "[" + string(q) + ", 2.5, {\"a\": [true]}]"
	case 7:
		return "{\"k\": " + string(q) + ", \"n\": [1, {\"x\": \"}\"}]}"
	case 8:
		return "[" + string(q) + ", \"]\", {\"a\": [2]}]"
	}
	return string(q)
}

func c15GenElem(r *Rand, dt, mode string, long int) c15Elem {
	for try := 0; try < 20; try++ {
		var e c15Elem
		if long > 0 {
			e.Fill = c15Fills[r.Intn(len(c15Fills))]
			e.N = long
			if r.Bool() {
				e.S = c15RawString(r)
			}
			if r.Bool() {
				e.T = c15RawString(r)
			}
			if dt == "jsonc" || (dt == "jsonl" && mode == "foreach") {
				// a long JSON document: an array holding one long string
				e.S, e.T = "[\""+c15Word(r), c15Word(r)+"\"]"
				e.Fill = []string{"#", "ab", "é日", "}{", "]["}[r.Intn(5)]
			} else if !c15Known(dt) {
				e.S, e.T, e.Fill = c15Word(r), c15Word(r), "ab"
			} else {
				e.S = c15Sanitise(dt, mode, e.S)
				e.T = c15Sanitise(dt, mode, e.T)
				e.Fill = c15Sanitise(dt, mode, e.Fill)
				if e.Fill == "" {
					e.Fill = "#"
				}
			}
		} else {
			e.S = c15Sanitise(dt, mode, c15RawString(r))
		}
		if over := len(e.S) + len(e.T) + e.N - 61440; over > 0 && e.N > over {
			e.N -= over // "up to 60 KiB each"
		}
		s := e.str()
		if s != "" && len(s) <= 61440 && c15Legal(dt, mode, s) {
			return e
		}
	}
	if dt == "jsonc" || (dt == "jsonl" && mode == "foreach") {
		return c15Elem{S: "[\"" + c15Word(r) + "\"]"}
	}
	return c15Elem{S: c15Word(r)}
}

func c15Len(r *Rand, max int) int {
	// lengths skewed small: most elements are short, a few reach the 60 KiB bound
	switch r.Intn(10) {
	case 0:
		return 1 + r.Intn(max)
	case 1, 2:
		return 1 + r.Intn(5000)
	default:
		return 1 + r.Intn(300)
	}
}

func genC15(r *Rand, tier string) Case {
	ti := c15Types()
	var w c15W
	// type: the ones the statement names get more weight; unsupported writers are visited rarely
	var pool []string
	for _, n := range ti.usable {
		k := 2
		if c15Named[n] {
			k = 4
		}
		for i := 0; i < k; i++ {
			pool = append(pool, n)
		}
	}
	w.DT = pool[r.Intn(len(pool))]
	if len(ti.unsupported) > 0 && r.Intn(60) == 0 {
		w.DT = ti.unsupported[r.Intn(len(ti.unsupported))]
	}
	w.Mode = "comp"
	if r.Intn(5) < 2 {
		w.Mode = "foreach"
	}
	// size class
	n := 0
	switch r.Intn(12) {
	case 0:
		n = 0
	case 1:
		n = 1
	case 2, 3:
		n = 2 + r.Intn(49) // up to 50
	default:
		n = 1 + r.Intn(8)
	}
	big := r.Intn(25) == 0 // occasionally the whole 50 x 60 KiB, beyond the production 1 MiB limit
	budget := 40000        // bytes in long elements per case, unless big
	if w.Mode == "foreach" {
		big = false
		budget = 100000
		if r.Intn(4) != 0 {
			budget = 6000
		}
	} else if r.Intn(6) == 0 {
		budget = 200000
	}
	if big {
		n = 30 + r.Intn(21)
		w.Max = 1 << 20
	}
	if w.Mode == "foreach" && w.DT == "jsonl" && r.Intn(8) == 0 {
		w.Raw = true
	}
	for i := 0; i < n; i++ {
		long := 0
		if big {
			long = 30000 + r.Intn(31000)
		} else if r.Intn(4) == 0 && budget > 0 {
			long = c15Len(r, 61000)
			if long > budget {
				long = budget
			}
			budget -= long
		}
		w.Elems = append(w.Elems, c15GenElem(r, w.DT, w.amode(), long))
	}
	class := w.Mode
	if w.Raw {
		class = "foreach-rawline"
	}
	// the empty-element question lives in its own class
	if n > 0 && !w.Raw && c15EmptyCovered(w.DT) && r.Intn(8) == 0 {
		class += "-empty"
		k := 1 + r.Intn(2)
		for i := 0; i < k; i++ {
			w.Elems[r.Intn(len(w.Elems))] = c15Elem{}
		}
	}
	est, total := 0, 0
	for _, e := range w.Elems {
		total += len(e.S) + len(e.T) + e.N
	}
	if w.Mode == "comp" {
		if !big {
			w.Max = []int{1, 2, 7, 64, 4096, 65536, 1 << 20}[r.Intn(7)]
		}
		w.Typed = r.Bool()
		w.Bytes = r.Bool()
		if r.Intn(3) == 0 && class == "comp" {
			class = "comp-stall"
			nr := 1 + r.Intn(6)
			for i := 0; i < nr; i++ {
				switch r.Intn(4) {
				case 0:
					w.Relay = append(w.Relay, 1)
				case 1:
					w.Relay = append(w.Relay, 1+r.Intn(5000))
				default:
					w.Relay = append(w.Relay, 1+r.Intn(40))
				}
			}
		}
		ns := r.Intn(4)
		if class == "comp-stall" {
			ns = 1 + r.Intn(5)
		}
		for i := 0; i < ns; i++ {
			st := c15Stall{At: r.Intn(n + 8)}
			if len(w.Relay) > 0 {
				st.At = r.Intn(30) // chunk index
			}
			if r.Bool() {
				st.Yields = 1 + r.Intn(30)
			} else {
				st.Ms = 1 + r.Intn(3000)
			}
			w.Stalls = append(w.Stalls, st)
		}
		// measured: ~12 decisions per element, ~9 per relayed chunk (at most ~250 chunks)
		est = 40 + 12*n
		if len(w.Relay) > 0 {
			chunks := total + n
			if chunks > 250 {
				chunks = 250
			}
			est += 9 * chunks
		}
		return Case{Class: class, W: mustJSON(w), Sched: defaultSched(r, est, 400000, 0)} // largest fault-free run seen: 16 k decisions
	}
	w.K = 3
	if tier == "thorough" {
		w.K = 6
	}
	for k := 0; k < w.K; k++ {
		w.Limits = append(w.Limits, []int{0, 1, 7, 64, 4096}[r.Intn(5)])
	}
	w.Style = r.Intn(3)
	w.Lit = r.Bool()
	return Case{Class: class, W: mustJSON(w), Sched: interpSched(r, 200+40*n)}
}

// ---------------------------------------------------------------- oracle

func c15Short(s string) string {
	if len(s) > 60 {
		return fmt.Sprintf("%q…(%d bytes)", s[:40], len(s))
	}
	return strconv.Quote(s)
}

func c15List(l []string) string {
	var b strings.Builder
	b.WriteString("[")
	for i, s := range l {
		if i > 0 {
			b.WriteString(", ")
		}
		if i >= 12 {
			fmt.Fprintf(&b, "… %d more", len(l)-i)
			break
		}
		b.WriteString(c15Short(s))
	}
	b.WriteString("]")
	return b.String()
}

func c15Subseq(small, big []string) (missing []int, ok bool) {
	j := 0
	for i := range big {
		if j < len(small) && small[j] == big[i] {
			j++
		} else {
			missing = append(missing, i)
		}
	}
	return missing, j == len(small)
}

// c15Compare classifies the difference between the list written and the list observed
func c15Compare(want, got []string) (clause, detail string) {
	same := len(want) == len(got)
	if same {
		for i := range want {
			if want[i] != got[i] {
				same = false
				break
			}
		}
	}
	if same {
		return "", ""
	}
	first := 0
	for first < len(want) && first < len(got) && want[first] == got[first] {
		first++
	}
	where := fmt.Sprintf("first difference at index %d", first)
	if first < len(want) {
		where += ": written " + c15Short(want[first])
	} else {
		where += ": nothing more was written"
	}
	if first < len(got) {
		where += ", observed " + c15Short(got[first])
	} else {
		where += ", observed nothing more"
	}
	where += fmt.Sprintf(" (%d written, %d observed)\nwritten:  %s\nobserved: %s", len(want), len(got), c15List(want), c15List(got))
	if len(want) == 0 {
		return "empty-list-not-empty", "the empty list came back with " + strconv.Itoa(len(got)) + " element(s); " + where
	}
	if miss, ok := c15Subseq(got, want); ok {
		allEmpty := true
		for _, i := range miss {
			if want[i] != "" {
				allEmpty = false
			}
		}
		if allEmpty {
			return "empty-element-skipped", fmt.Sprintf("%d empty element(s) were not delivered, everything else was; %s", len(miss), where)
		}
		return "element-lost", fmt.Sprintf("%d element(s) missing, the rest in order; %s", len(miss), where)
	}
	if extra, ok := c15Subseq(want, got); ok {
		cnt := map[string]int{}
		for _, s := range want {
			cnt[s]++
		}
		dup := true
		for _, i := range extra {
			if cnt[got[i]] == 0 {
				dup = false
			}
		}
		if dup {
			return "element-duplicated", fmt.Sprintf("%d element(s) delivered more often than written; %s", len(extra), where)
		}
		return "element-spurious", fmt.Sprintf("%d element(s) delivered that were never written; %s", len(extra), where)
	}
	if len(want) == len(got) {
		cnt := map[string]int{}
		for _, s := range want {
			cnt[s]++
		}
		for _, s := range got {
			cnt[s]--
		}
		perm := true
		for _, s := range want {
			if cnt[s] != 0 {
				perm = false
			}
		}
		if perm {
			return "order", "same elements, different order; " + where
		}
	}
	return "element-altered", where
}

// c15Render: the string form of a value handed to a ReadArrayWithType callback. The statement is
// about the element, not its Go type: a number/boolean/null is accepted when its canonical text
// is the text that was written.
func c15Render(v any) string {
	switch t := v.(type) {
	case string:
		return t
	case []byte:
		return string(t)
	case []rune:
		return string(t)
	case int:
		return strconv.Itoa(t)
	case int64:
		return strconv.FormatInt(t, 10)
	case float64:
		return strconv.FormatFloat(t, 'f', -1, 64)
	case bool:
		return strconv.FormatBool(t)
	case nil:
		return "null"
	}
	return fmt.Sprintf("%T(%v)", v, v)
}

// ---------------------------------------------------------------- established root causes
//
// A failure is reported under a root cause's own clause id when the case carries that root cause's
// signature (a property of the written list only); everything else keeps the generic clause ids.

// c15YamlPlainSafe: would s, written as a plain (unquoted) scalar `- s`, be read back as the string s?
// Decided by a YAML parser, not by murex.
func c15YamlPlainSafe(s string) bool {
	var v any
	if yaml.Unmarshal([]byte("- "+s+"\n"), &v) != nil {
		return false
	}
	l, ok := v.([]any)
	if !ok || len(l) != 1 {
		return false
	}
	str, ok := l[0].(string)
	return ok && str == s
}

// c15BracketInString: does the JSON text carry one of {}[] inside a string literal
func c15BracketInString(doc string) bool {
	in, esc := false, false
	for i := 0; i < len(doc); i++ {
		ch := doc[i]
		switch {
		case esc:
			esc = false
		case in && ch == '\\':
			esc = true
		case ch == '"':
			in = !in
		case in && (ch == '{' || ch == '}' || ch == '[' || ch == ']'):
			return true
		}
	}
	return false
}

func c15Cause(w *c15W, want, got []string, errText string, generic string) string {
	failed := errText != ""
	switch generic {
	case "", "empty-element-skipped", "empty-list-not-empty", "no-termination", "internal-panic":
		return generic
	}
	switch w.DT {
	case "yaml":
		// the yaml array writer emits `- ` + the raw element: anything YAML does not read back as that
		// plain string is altered, typed, or breaks the document
		if w.Mode == "comp" {
			for _, s := range want {
				if !c15YamlPlainSafe(s) {
					return "yaml-writer-unquoted"
				}
			}
		}
	case "jsonc":
		bracket, kinds := false, map[byte]bool{}
		for _, s := range want {
			if s == "" {
				continue
			}
			kinds[s[0]] = true
			if c15BracketInString(s) {
				bracket = true
			}
		}
		switch {
		case bracket:
			return "jsonc-bracket-in-string" // the splitter counts brackets inside string literals
		case len(kinds) > 1:
			return "jsonc-mixed-documents" // only documents opening like the first one are recognised
		case len(want) > 1:
			return "jsonc-separator-kept" // the separator between two documents is glued to the second
		}
	case "xml":
		// the xml reader casts number/boolean-looking text (mxj cast=true): 0123 -> 123, 1.50 -> 1.5
		if !failed && len(got) == len(want) {
			cast := true
			for i := range want {
				if want[i] == got[i] {
					continue
				}
				_, ferr := strconv.ParseFloat(want[i], 64)
				_, berr := strconv.ParseBool(want[i])
				if ferr != nil && berr != nil {
					cast = false
				}
			}
			if cast {
				return "xml-text-cast"
			}
		}
		if failed && (strings.Contains(errText, "float64 types in XML") || strings.Contains(errText, "bool types in XML") ||
			strings.Contains(errText, "cannot turn float64 into an array") || strings.Contains(errText, "cannot turn bool into an array")) {
			return "xml-text-cast" // ReadArray then cannot turn the cast value back into text
		}
		if w.Mode == "comp" && (failed || len(got) != len(want)) {
			return "xml-array-writer-malformed" // the xml array writer's output is not well-formed XML: the reader fails or finds other elements
		}
	case "jsonl":
		if w.Mode == "foreach" {
			for _, s := range want {
				if s != "" && !json.Valid([]byte(s)) {
					return "jsonl-line-not-json" // foreach binds a jsonl line as a json value: a line that is not a JSON document cannot be bound
				}
			}
		}
	}
	return generic
}

// ---------------------------------------------------------------- run

func runC15(c *Case, e *Env) Outcome {
	var w c15W
	if err := json.Unmarshal(c.W, &w); err != nil {
		return Outcome{Verdict: "inconclusive", Clause: "bad-case", Detail: err.Error()}
	}
	want := make([]string, len(w.Elems))
	for i, el := range w.Elems {
		want[i] = el.str()
		if want[i] == "" {
			if !strings.HasSuffix(c.Class, "-empty") || !c15EmptyCovered(w.DT) {
				return Outcome{Verdict: "inconclusive", Clause: "bad-case", Detail: "empty element outside the -empty classes"}
			}
			continue
		}
		if !c15Legal(w.DT, w.amode(), want[i]) {
			return Outcome{Verdict: "inconclusive", Clause: "bad-case", Detail: fmt.Sprintf("element %d is outside the legal alphabet of %s: %s", i, w.DT, c15Short(want[i]))}
		}
	}
	if w.DT == "paths" && len(want) == 1 && want[0] == "" {
		e.Probe("unrepresentable-list")
		return okOutcome() // a colon-separated list cannot tell [""] from []: outside what the format can carry
	}
	if w.Mode == "foreach" {
		return runC15Foreach(c, e, &w, want)
	}
	return runC15Comp(c, e, &w, want)
}

func runC15Comp(c *Case, e *Env, w *c15W, want []string) Outcome {
	saveMax := streams.DefaultMaxBufferSize
	defer func() { streams.DefaultMaxBufferSize = saveMax }()
	var (
		got                 []string
		ctorErr, wErr, rErr error
		wErrAt              = -1
		readerDone          bool
		writerDone          bool
		midElement          int
		stalled             int
		blocked             int
		drained             int
	)
	stallAt := func(i int) {
		for _, st := range w.Stalls {
			if st.At != i {
				continue
			}
			stalled++
			for k := 0; k < st.Yields; k++ {
				simrt.Yield("c15-stall")
			}
			if st.Ms > 0 {
				time.Sleep(time.Duration(st.Ms) * time.Millisecond)
			}
		}
	}
	writeAll := func(aw stdio.ArrayWriter, stalls bool) {
		for i, s := range want {
			if stalls {
				stallAt(i)
			}
			var err error
			s0 := simrt.Step()
			if w.Bytes {
				err = aw.Write([]byte(s))
			} else {
				err = aw.WriteString(s)
			}
			if simrt.Step()-s0 > 12 {
				blocked++
			}
			if err != nil && wErr == nil {
				wErr, wErrAt = err, i
			}
		}
		if stalls {
			stallAt(len(want))
		}
		if err := aw.Close(); err != nil && wErr == nil {
			wErr, wErrAt = err, len(want)
		}
	}
	res := e.Bubble(c.Sched, func() {
		var scratch *streams.Stdin
		if len(w.Relay) > 0 {
			streams.DefaultMaxBufferSize = 0 // unlimited: the scratch pipe only collects the serialised form
			scratch = streams.NewStdin()
		}
		streams.DefaultMaxBufferSize = w.Max
		pipe := streams.NewStdin()
		pipe.Open()
		simrt.Go(func() { // producer
			defer func() { writerDone = true }()
			defer pipe.Close()
			if scratch == nil {
				pipe.SetDataType(w.DT)
				aw, err := pipe.WriteArray(w.DT)
				if err != nil {
					ctorErr = err
					return
				}
				writeAll(aw, true)
				return
			}
			// F-endpoint: the array writer's byte stream reaches the reader through a relay that
			// re-chunks it and stalls between chunks (a pipe is a byte stream: any relay may do this)
			scratch.Open()
			scratch.SetDataType(w.DT)
			aw, err := scratch.WriteArray(w.DT)
			if err != nil {
				ctorErr = err
				return
			}
			writeAll(aw, false)
			scratch.Close()
			ser, _ := scratch.ReadAll()
			pipe.SetDataType(w.DT)
			minChunk := len(ser)/250 + 1
			for k, off := 0, 0; off < len(ser); k++ {
				n := w.Relay[k%len(w.Relay)]
				if n < minChunk {
					n = minChunk
				}
				if off+n > len(ser) {
					n = len(ser) - off
				}
				stallAt(k)
				if off > 0 && ser[off-1] != '\n' {
					midElement++
				}
				s0 := simrt.Step()
				if _, err := pipe.Write(ser[off : off+n]); err != nil && wErr == nil {
					wErr, wErrAt = err, -2
				}
				if simrt.Step()-s0 > 12 {
					blocked++
				}
				off += n
			}
		})
		simrt.Go(func() { // consumer
			ctx := context.Background()
			if w.Typed {
				rErr = pipe.ReadArrayWithType(ctx, func(v any, _ string) { got = append(got, c15Render(v)) })
			} else {
				rErr = pipe.ReadArray(ctx, func(b []byte) { got = append(got, string(b)) })
			}
			readerDone = true
			// whatever the reader did, let the producer finish: drain like a closing process would
			buf := make([]byte, 32768)
			for {
				n, err := pipe.Read(buf)
				drained += n
				if err != nil {
					return
				}
			}
		})
	})
	if res.Panic != "" {
		return Outcome{Verdict: "panic", Clause: "panic", Detail: res.Panic}
	}
	if blocked > 0 {
		e.Probe("writer-held-back")
	}
	if stalled > 0 {
		e.Fault("producer-stall")
	}
	if midElement > 0 {
		e.Fault("relay-cut-mid-element")
	}
	api := "ReadArray"
	if w.Typed {
		api = "ReadArrayWithType"
	}
	desc := fmt.Sprintf("type %s, %s, buffer limit %d, %d element(s)", w.DT, api, w.Max, len(want))
	if ctorErr != nil {
		if !c15Named[w.DT] {
			e.Probe("writer-unsupported")
			return okOutcome() // this type cannot write arrays: outside the property
		}
		return violation("write-error", "%s: WriteArray(%q) refused: %v", desc, w.DT, ctorErr)
	}
	if !writerDone || !readerDone {
		return violation("no-termination", "%s: the run ended with producer done=%v consumer done=%v", desc, writerDone, readerDone)
	}
	cl, detail := c15Compare(want, got)
	if wErr != nil && len(want) > 0 {
		if cc := c15Cause(w, want, got, wErr.Error(), "write-error"); cc != "write-error" {
			return violation(cc, "%s: write error %q; list read back: %s", desc, wErr, c15List(got))
		}
	}
	if wErr != nil {
		at := fmt.Sprintf("writing element %d", wErrAt)
		if wErrAt == len(want) {
			at = "ArrayWriter.Close()"
		} else if wErrAt == -2 {
			at = "relay Write"
		}
		if len(want) == 0 && len(got) == 0 && rErr == nil {
			// json: Close() reports "no data returned" for the empty list and writes nothing; the list
			// read back is the (empty) list written. murex pins this on purpose (TestMatchNegative,
			// TestLsG, ...: an array builtin that yields nothing fails) and the statement is silent
			// about it: counted, not asserted.
			e.Probe("empty-list-close-error")
			return okOutcome()
		}
		return violation("write-error", "%s: %s returned %q", desc, at, wErr)
	}
	if rErr != nil {
		return violation(c15Cause(w, want, got, rErr.Error(), "read-error"), "%s: %s returned %q after %d element(s)\nwritten:  %s\nobserved: %s", desc, api, rErr, len(got), c15List(want), c15List(got))
	}
	if cl != "" {
		return violation(c15Cause(w, want, got, "", cl), "%s: %s", desc, detail)
	}
	return okOutcome()
}

// ---- foreach

func c15YamlScalar(s string, style int) string {
	plainSafe := s != ""
	for i, r := range s {
		if !(r >= 'a' && r <= 'z') && !(i > 0 && (r >= '0' && r <= '9' || r == ' ' && i < len(s)-1)) {
			plainSafe = false
		}
	}
	switch s {
	case "null", "true", "false", "yes", "no", "on", "off", "y", "n":
		plainSafe = false
	}
	if style == 2 && plainSafe {
		return s
	}
	if style >= 1 && !strings.ContainsAny(s, "'\t") {
		return "'" + s + "'"
	}
	var b strings.Builder
	b.WriteByte('"')
	for _, r := range s {
		switch r {
		case '"':
			b.WriteString("\\\"")
		case '\\':
			b.WriteString("\\\\")
		case '\t':
			b.WriteString("\\t")
		default:
			b.WriteRune(r)
		}
	}
	b.WriteByte('"')
	return b.String()
}

// c15Serialise: the list in dt's format, written from the format's definition (not with murex's writers)
func c15Serialise(dt string, l []string, style int) (string, bool) {
	switch {
	case c15LineType(dt), c15Generic(dt), dt == "jsonc":
		var b strings.Builder
		for i, s := range l {
			b.WriteString(s)
			if i == len(l)-1 && style%2 == 1 && s != "" {
				break // the last line of a text need not be terminated
			}
			b.WriteByte('\n')
		}
		return b.String(), true
	case dt == "json":
		var b strings.Builder
		b.WriteByte('[')
		for i, s := range l {
			if i > 0 {
				b.WriteString([]string{",", ", ", " ,"}[style%3])
			}
			var q strings.Builder
			enc := json.NewEncoder(&q)
			enc.SetEscapeHTML(style == 1)
			enc.Encode(s)
			b.WriteString(strings.TrimRight(q.String(), "\n"))
		}
		b.WriteByte(']')
		return b.String(), true
	case dt == "yaml":
		if len(l) == 0 {
			return "[]\n", true
		}
		var b strings.Builder
		for _, s := range l {
			b.WriteString("- " + c15YamlScalar(s, style) + "\n")
		}
		return b.String(), true
	case dt == "xml":
		var b strings.Builder
		b.WriteString("<xml>")
		for _, s := range l {
			b.WriteString("<e>")
			for _, r := range s {
				switch r {
				case '<':
					b.WriteString("&lt;")
				case '>':
					b.WriteString("&gt;")
				case '&':
					b.WriteString("&amp;")
				case '\t':
					b.WriteString("&#9;")
				default:
					b.WriteRune(r)
				}
			}
			b.WriteString("</e>")
		}
		b.WriteString("</xml>")
		return b.String(), true
	case dt == "path":
		if len(l) == 0 {
			return "", false // the path format has no text for the empty list (the empty text is the path ".")
		}
		return strings.Join(l, "/"), true
	case dt == "paths":
		return strings.Join(l, ":"), true
	}
	return "", false
}

func runC15Foreach(c *Case, e *Env, w *c15W, want []string) Outcome {
	ser, ok := c15Serialise(w.DT, want, w.Style)
	if !ok {
		e.Probe("foreach-format-unknown")
		return okOutcome() // a type this harness has no independent serialiser for: component classes cover it
	}
	var src string
	lit := w.Lit && !strings.ContainsAny(ser, "'")
	if lit {
		src = "tout " + w.DT + " '" + ser + "' -> foreach x { out \"<$x>\" }\n"
	} else {
		src = "tout " + w.DT + " $c15v -> foreach x { out \"<$x>\" }\n"
	}
	progShown := src
	if lit {
		progShown = "tout " + w.DT + " '<serialised list>' -> foreach x { out \"<$x>\" }\n"
	}
	show := ser
	if len(show) > 300 {
		show = show[:300] + fmt.Sprintf("…(%d bytes)", len(ser))
	}
	var wantOut strings.Builder
	for _, s := range want {
		wantOut.WriteString("<" + s + ">\n")
	}
	for k := 0; k < w.K; k++ {
		sc := c.Sched
		sc.Seed = mix(c.Sched.Seed, uint64(k))
		if k > 0 {
			sc.Strategy = strategies[int(sc.Seed%uint64(len(strategies)))]
		}
		lim := 0
		if k < len(w.Limits) {
			lim = w.Limits[k]
		}
		if !lit {
			if err := lang.GlobalVariables.Set(lang.ShellProcess, "c15v", ser, "str"); err != nil {
				return Outcome{Verdict: "inconclusive", Clause: "bad-case", Detail: "cannot stage the list: " + err.Error()}
			}
		}
		restore := setPipeLimit(lim)
		got, res := e.runProgram(sc, src, 0)
		restore()
		if res.Panic != "" {
			return Outcome{Verdict: "panic", Clause: "panic", Detail: res.Panic}
		}
		desc := fmt.Sprintf("type %s, %d element(s), schedule %d (%s, seed %d, buffer limit %d)\nprogram: %sserialised list: %q", w.DT, len(want), k, sc.Strategy, sc.Seed, lim,
			progShown, show)
		if ct := crashText(got.Out + got.Err + got.ExecErr); ct != "" {
			return violation("internal-panic", "%s\nreported: %s", desc, ct)
		}
		if got.Out == wantOut.String() && got.Err == "" && got.Exit == 0 {
			continue
		}
		// what did the body see
		var seen []string
		lines := strings.Split(got.Out, "\n")
		if len(lines) > 0 && lines[len(lines)-1] == "" {
			lines = lines[:len(lines)-1]
		}
		framed := true
		for _, l := range lines {
			if len(l) >= 2 && l[0] == '<' && l[len(l)-1] == '>' {
				seen = append(seen, l[1:len(l)-1])
			} else {
				framed = false
				seen = append(seen, l)
			}
		}
		cl, detail := c15Compare(want, seen)
		cmpWant := want
		if cl != "" && cl != "empty-element-skipped" && strings.HasSuffix(c.Class, "-empty") {
			// empty elements are a question of their own: classify what else differs without them
			var rest []string
			for _, s := range want {
				if s != "" {
					rest = append(rest, s)
				}
			}
			if cl2, d2 := c15Compare(rest, seen); cl2 != "" {
				cl, detail, cmpWant = cl2, d2+"\n(compared without the empty elements, which were skipped as well)", rest
			}
		}
		if cl == "" && !framed {
			cl, detail = "element-altered", "output lines are not of the form <element>"
		}
		if got.Err != "" || got.Exit != 0 || got.ExecErr != "" {
			return violation(c15Cause(w, want, seen, "stderr: "+got.Err+got.ExecErr, "foreach-error"), "%s\nforeach failed: exit %d, stderr %q, %s\nbody ran %d time(s): %s", desc, got.Exit, got.Err, got.ExecErr, len(seen), c15List(seen))
		}
		if cl == "" {
			cl, detail = "element-altered", fmt.Sprintf("stdout %q differs from the expected %q", got.Out, wantOut.String())
		}
		return violation(c15Cause(w, cmpWant, seen, "", cl), "%s\n%s", desc, detail)
	}
	return okOutcome()
}

// ---------------------------------------------------------------- shrink

func shrinkC15(c *Case) []Case {
	var w c15W
	if json.Unmarshal(c.W, &w) != nil {
		return nil
	}
	var out []Case
	cp := func() c15W {
		var v c15W
		json.Unmarshal(c.W, &v)
		return v
	}
	emit := func(v c15W) {
		hasEmpty := false
		for _, el := range v.Elems {
			s := el.str()
			if s == "" {
				hasEmpty = true
				continue
			}
			if !c15Legal(v.DT, v.amode(), s) {
				return // a witness must stay inside the legal alphabet
			}
		}
		class := c.Class
		if hasEmpty && !strings.HasSuffix(class, "-empty") {
			return
		}
		if class == "comp-stall" && len(v.Relay) == 0 {
			class = "comp"
		}
		out = append(out, Case{Class: class, W: mustJSON(v), Sched: c.Sched})
	}
	n := len(w.Elems)
	// drop elements: halves, then singles
	if n > 1 {
		v := cp()
		v.Elems = v.Elems[:n/2]
		emit(v)
		v = cp()
		v.Elems = v.Elems[n/2:]
		emit(v)
	}
	if n <= 16 {
		for i := 0; i < n; i++ {
			v := cp()
			v.Elems = append(v.Elems[:i:i], v.Elems[i+1:]...)
			emit(v)
		}
	}
	// shorten / simplify elements
	v := w
	for i, el := range w.Elems {
		if n > 16 && i > 16 {
			break
		}
		if el.N > 0 {
			v := cp()
			v.Elems[i].N = 0
			v.Elems[i].Fill = ""
			emit(v)
			v = cp()
			v.Elems[i].N = el.N / 2
			emit(v)
			if el.Fill != "#" && el.Fill != "ab" {
				v = cp()
				v.Elems[i].Fill = "ab"
				emit(v)
			}
		}
		if el.T != "" {
			v := cp()
			v.Elems[i].T = ""
			emit(v)
		}
		if el.S != "" && (el.T != "" || el.N > 0) {
			v := cp()
			v.Elems[i].S = ""
			emit(v)
		}
		if v.DT == "jsonc" || (v.DT == "jsonl" && v.amode() == "foreach") {
			// JSON documents cannot be cut in halves: try canonical small ones instead
			for _, doc := range []string{"[1]", "{\"a\":1}", "[\"]\"]", "{\"k\":\"}\"}"} {
				if el.str() != doc {
					v := cp()
					v.Elems[i] = c15Elem{S: doc}
					emit(v)
				}
			}
		}
		simple := "e" + strconv.Itoa(i)
		if v := cp(); el.str() != "" && el.str() != simple {
			v.Elems[i] = c15Elem{S: simple}
			emit(v)
		}
		if rs := []rune(el.S); len(rs) > 1 {
			v := cp()
			v.Elems[i].S = string(rs[:len(rs)/2])
			emit(v)
			v = cp()
			v.Elems[i].S = string(rs[len(rs)/2:])
			emit(v)
		}
	}
	// knobs and faults off
	if w.Mode == "comp" {
		if len(w.Relay) > 0 {
			v := cp()
			v.Relay = nil
			emit(v)
			if len(w.Relay) > 1 {
				v = cp()
				v.Relay = v.Relay[:1]
				emit(v)
			}
		}
		if len(w.Stalls) > 0 {
			v := cp()
			v.Stalls = nil
			emit(v)
		}
		if w.Max != 1<<20 {
			v := cp()
			v.Max = 1 << 20
			emit(v)
		}
		if w.Bytes {
			v := cp()
			v.Bytes = false
			emit(v)
		}
		if w.Typed {
			v := cp()
			v.Typed = false
			emit(v)
		}
	} else {
		if w.K > 1 {
			v := cp()
			v.K = 1
			emit(v)
		}
		for k, l := range w.Limits {
			if l != 0 {
				v := cp()
				v.Limits[k] = 0
				emit(v)
			}
		}
		if w.Style != 0 {
			v := cp()
			v.Style = 0
			emit(v)
		}
		if !w.Lit {
			v := cp()
			v.Lit = true
			emit(v)
		}
	}
	for _, st := range []string{"rr", "pb0"} {
		if c.Sched.Strategy != st {
			v := *c
			v.Sched.Strategy = st
			v.Sched.Decisions = nil
			out = append(out, v)
		}
	}
	return out
}
