package h

// C02: a pipe's data type is set once and never changes (streams.Stdin, Tee).
//
// Statement: the data type is the first non-empty, non-null type any writer
// declares and never changes after that; a reader that asks before one is
// declared waits until a type is declared or all writers close; if the writers
// close without declaring one the reader gets the generic type "*".
//
// Oracle: (1) direct history checks with specific clause ids, each one a
// consequence of the statement alone; (2) porcupine linearizability check
// against the sequential model (dt, openWriters, cancelled).

import (
	"encoding/json"
	"fmt"
	"sort"
	"strings"
	"time"

	"github.com/anishathalye/porcupine"
	"github.com/lmorg/murex/builtins/pipes/streams"
	"github.com/lmorg/murex/lang/stdio"
	"github.com/lmorg/murex/utils/simrt"
)

type c02Op struct {
	K string `json:"k"`           // set | open | close | get | yield
	X string `json:"x,omitempty"` // set: the type name; get: "p" pipe itself, "t" through the tee, "s" the tee's secondary
}

type c02Actor struct {
	Pre bool    `json:"pre,omitempty"` // a writer: Open()ed by the root before any actor starts; whatever it still holds is closed at the end of its script
	Ops []c02Op `json:"ops"`
}

type c02W struct {
	Tee      bool       `json:"tee,omitempty"` // writers (and the fault) act through a Tee whose primary is the pipe
	Actors   []c02Actor `json:"actors"`
	CancelAt int        `json:"cancel_at"`       // F-cancel: ForceClose at this decision (-1: none)
	Final    bool       `json:"final,omitempty"` // the actor that finishes last asks for the type once more (pipe, and tee secondary)
}

const c02MaxOps = 14

func init() {
	register(&Harness{Name: "c02", Gen: genC02, Run: runC02, Shrink: shrinkC02})
	propHarness["C02"] = "c02"
}

func c02Valid(x string) bool { return x != "" && x != "null" }

// c02Norm makes any op list a legal workload (so that every shrink candidate is one):
// a close needs something held by that actor, a get needs the actor to hold nothing
// (a writer waiting for its own close would wait forever, correctly), get targets
// other than the pipe itself need a tee.
func c02Norm(w c02W) c02W {
	out := c02W{Tee: w.Tee, CancelAt: w.CancelAt, Final: w.Final}
	for _, a := range w.Actors {
		b := c02Actor{Pre: a.Pre}
		held := 0
		if a.Pre {
			held = 1
		}
		for _, op := range a.Ops {
			switch op.K {
			case "set":
			case "yield":
				op.X = ""
			case "open":
				op.X = ""
				held++
			case "close":
				op.X = ""
				if held == 0 {
					continue
				}
				held--
			case "get":
				if held > 0 {
					continue
				}
				if !w.Tee {
					if op.X == "s" {
						continue
					}
					op.X = "p"
				} else if op.X != "t" && op.X != "s" {
					op.X = "p"
				}
			default:
				continue
			}
			b.Ops = append(b.Ops, op)
		}
		if b.Ops == nil {
			b.Ops = []c02Op{}
		}
		out.Actors = append(out.Actors, b)
	}
	return out
}

// c02Count: number of logged operations of a (normalised) workload.
func c02Count(w c02W) int {
	n := 0
	for _, a := range w.Actors {
		held := 0
		if a.Pre {
			held = 1
		}
		for _, op := range a.Ops {
			switch op.K {
			case "open":
				held++
				n++
			case "close":
				held--
				n++
			case "set", "get":
				n++
			}
		}
		n += held
	}
	if w.CancelAt >= 0 {
		n++
	}
	if w.Final {
		n++
		if w.Tee {
			n++
		}
	}
	return n
}

func c02Class(w c02W) string {
	switch {
	case w.CancelAt >= 0:
		return "cancel"
	case w.Tee:
		return "tee"
	}
	return "plain"
}

func genC02(r *Rand, tier string) Case {
	var w c02W
	w.CancelAt = -1
	switch r.Intn(10) {
	case 0, 1, 2:
		w.Tee = true
	case 3, 4:
		w.CancelAt = r.Intn(30)
		w.Tee = r.Intn(4) == 0
	}
	w.Final = r.Intn(3) != 0

	// palette: a few valid names so that equal and different declarations both happen
	pool := []string{"*", "json", "str", "nul", "nulls"}
	for i := 0; i < 3; i++ {
		n := 1 + r.Intn(3)
		b := make([]byte, n)
		for k := range b {
			b[k] = byte('a' + r.Intn(26))
		}
		pool = append(pool, string(b))
	}
	var pal []string
	for i, np := 0, 1+r.Intn(3); i < np; i++ {
		x := r.Pick(pool)
		if !c02Valid(x) { // a random name may spell "null"
			x = "str"
		}
		pal = append(pal, x)
	}
	pInvalid := []float64{0.1, 0.3, 0.6}[r.Intn(3)]
	name := func() string {
		if r.Chance(pInvalid) {
			if r.Bool() {
				return ""
			}
			return "null"
		}
		return r.Pick(pal)
	}
	target := func() string {
		if !w.Tee {
			return "p"
		}
		return []string{"p", "t", "t", "s"}[r.Intn(4)]
	}

	na := 2 + r.Intn(4)
	readers := 0
	for i := 0; i < na; i++ {
		var a c02Actor
		role := r.Intn(20)
		switch {
		case i == 0 && r.Intn(8) != 0, role < 9: // writer
			a.Pre = true
			held := 1
			for k, n := 0, r.Intn(4); k < n; k++ {
				switch v := r.Intn(20); {
				case v < 11:
					a.Ops = append(a.Ops, c02Op{K: "set", X: name()})
				case v < 14:
					a.Ops = append(a.Ops, c02Op{K: "yield"})
				case v < 17:
					a.Ops = append(a.Ops, c02Op{K: "open"})
					held++
				default:
					if held > 0 {
						a.Ops = append(a.Ops, c02Op{K: "close"})
						held--
					}
				}
			}
			if r.Intn(8) == 0 { // closes everything itself, then looks at the type like a reader
				for ; held > 0; held-- {
					a.Ops = append(a.Ops, c02Op{K: "close"})
				}
				a.Ops = append(a.Ops, c02Op{K: "get", X: target()})
				readers++
			}
		case role < 17: // reader
			for k, n := 0, 1+r.Intn(3); k < n; k++ {
				if r.Intn(3) == 0 {
					a.Ops = append(a.Ops, c02Op{K: "yield"})
				}
				a.Ops = append(a.Ops, c02Op{K: "get", X: target()})
			}
			readers++
		default: // not opened by the root: declares a type at any time, opens and closes a dependent of its own, reads
			held := 0
			for k, n := 0, 1+r.Intn(3); k < n; k++ {
				switch v := r.Intn(10); {
				case v < 5:
					a.Ops = append(a.Ops, c02Op{K: "set", X: name()})
				case v < 7 && held == 0:
					a.Ops = append(a.Ops, c02Op{K: "get", X: target()})
					readers++
				case v < 9 && held == 0:
					a.Ops = append(a.Ops, c02Op{K: "open"})
					held++
				case held > 0:
					a.Ops = append(a.Ops, c02Op{K: "close"})
					held--
				default:
					a.Ops = append(a.Ops, c02Op{K: "yield"})
				}
			}
		}
		w.Actors = append(w.Actors, a)
	}
	if readers == 0 {
		w.Final = true
	}
	w = c02Norm(w)
	// keep the history within the bound: drop trailing ops of the longest script
	for c02Count(w) > c02MaxOps {
		li := 0
		for i := range w.Actors {
			if len(w.Actors[i].Ops) > len(w.Actors[li].Ops) {
				li = i
			}
		}
		if len(w.Actors[li].Ops) == 0 {
			w.Actors = w.Actors[:len(w.Actors)-1]
		} else {
			w.Actors[li].Ops = w.Actors[li].Ops[:len(w.Actors[li].Ops)-1]
		}
		w = c02Norm(w)
	}
	return Case{Class: c02Class(w), W: mustJSON(w), Sched: defaultSched(r, 30, 20000, 0)}
}

// ---------------------------------------------------------------- history

type c02Ev struct {
	obj       int    // 0 the pipe, 1 the tee's secondary
	k         string // set open close get fclose
	x         string // set argument
	out       string // get result
	call, ret int64
	actor     int
}

func (v c02Ev) String() string {
	s := ""
	switch v.k {
	case "set":
		s = fmt.Sprintf("Set(%q)", v.x)
	case "get":
		s = fmt.Sprintf("Get()->%q", v.out)
	case "open":
		s = "Open()"
	case "close":
		s = "Close()"
	case "fclose":
		s = "ForceClose()"
	}
	return fmt.Sprintf("a%d:%s[%d,%d]", v.actor, s, v.call, v.ret)
}

func c02History(evs []c02Ev, obj int) string {
	var h []c02Ev
	for _, v := range evs {
		if v.obj == obj {
			h = append(h, v)
		}
	}
	sort.Slice(h, func(i, j int) bool { return h[i].call < h[j].call })
	var sb strings.Builder
	for i, v := range h {
		if i > 0 {
			sb.WriteString(" ")
		}
		sb.WriteString(v.String())
	}
	return sb.String()
}

// c02Direct: cheap checks on one object's history; every clause follows from the
// statement alone (see the comment at each). relaxed = the tee's secondary, which
// has no writers of its own: nothing is asserted about when it may answer "*"
// for lack of a declared type.
func c02Direct(evs []c02Ev, obj, nPre int, relaxed bool) (clause, detail string) {
	var sets, gets, opens, closes, fcs []c02Ev
	for _, v := range evs {
		if v.obj != obj {
			continue
		}
		switch v.k {
		case "set":
			sets = append(sets, v)
		case "get":
			gets = append(gets, v)
		case "open":
			opens = append(opens, v)
		case "close":
			closes = append(closes, v)
		case "fclose":
			fcs = append(fcs, v)
		}
	}
	// the type is never empty and never null
	for _, g := range gets {
		if !c02Valid(g.out) {
			return "invalid-type", fmt.Sprintf("%v: the type of a pipe is never empty or null", g)
		}
	}
	// a declared type is one some writer declared
	for _, g := range gets {
		if g.out == "*" {
			continue
		}
		found := false
		for _, s := range sets {
			if s.x == g.out && s.call < g.ret {
				found = true
			}
		}
		if !found {
			return "type-from-nowhere", fmt.Sprintf("%v: no SetDataType(%q) had been invoked by then", g, g.out)
		}
	}
	// it never changes ("*" may also be the answer for "nothing declared", so only other values are compared)
	for i, g1 := range gets {
		for _, g2 := range gets[i+1:] {
			if g1.out != "*" && g2.out != "*" && g1.out != g2.out {
				return "type-changed", fmt.Sprintf("%v and %v: two different declared types were observed", g1, g2)
			}
		}
	}
	// it is the FIRST declared one: if a valid Set(u) returned before any Set(v) was invoked the type cannot be v
	for _, g := range gets {
		if g.out == "*" {
			continue
		}
		for _, u := range sets {
			if !c02Valid(u.x) || u.x == g.out {
				continue
			}
			all := true
			for _, s := range sets {
				if s.x == g.out && s.call < u.ret {
					all = false
				}
			}
			if all {
				return "not-first-type", fmt.Sprintf("%v, but %v had returned before any SetDataType(%q) was invoked", g, u, g.out)
			}
		}
	}
	for _, g := range gets {
		if g.out != "*" {
			continue
		}
		starDeclared := false // could the declared type itself be "*"?
		for _, s := range sets {
			if s.x == "*" && s.call < g.ret {
				starDeclared = true
			}
		}
		// once a reader saw a declared type other than "*", nobody may be told "*" afterwards
		for _, g1 := range gets {
			if g1.out != "*" && g1.ret < g.call {
				return "type-lost", fmt.Sprintf("%v after %v had already returned a declared type", g, g1)
			}
		}
		if starDeclared {
			// "*" may be the declared type, but not if another valid declaration had completed
			// before the reader asked and before any SetDataType("*") was invoked
			for _, u := range sets {
				if !c02Valid(u.x) || u.x == "*" || u.ret >= g.call {
					continue
				}
				all := true
				for _, s := range sets {
					if s.x == "*" && s.call < u.ret {
						all = false
					}
				}
				if all {
					return "not-first-type", fmt.Sprintf("%v, but %v had returned before the call and before any SetDataType(\"*\") was invoked", g, u)
				}
			}
			continue
		}
		// a valid declaration had completed before the reader even asked
		for _, s := range sets {
			if c02Valid(s.x) && s.ret < g.call {
				return "ignored-declared-type", fmt.Sprintf("%v although %v had returned before and nobody declared \"*\"", g, s)
			}
		}
		if relaxed {
			continue
		}
		// "*" for lack of a declaration needs all writers closed (or the pipe cancelled) at some
		// instant of the call. Lower bound of open writers at t: nPre + Opens returned - Closes invoked.
		cancelled := false
		for _, f := range fcs {
			if f.call < g.ret {
				cancelled = true
			}
		}
		if cancelled {
			continue
		}
		lower := func(t int64) int {
			n := nPre
			for _, o := range opens {
				if o.ret <= t {
					n++
				}
			}
			for _, c := range closes {
				if c.call <= t {
					n--
				}
			}
			return n
		}
		min := lower(g.call)
		for _, c := range closes {
			if c.call > g.call && c.call < g.ret {
				if l := lower(c.call); l < min {
					min = l
				}
			}
		}
		if min >= 1 {
			return "generic-while-writer-open", fmt.Sprintf("%v: no type was declared, at least %d writer(s) had not even begun to close during the whole call, no ForceClose", g, min)
		}
	}
	return "", ""
}

// ---------------------------------------------------------------- sequential model for porcupine

type c02In struct {
	k string
	x string
}

type c02St struct {
	dt   string
	open int
	canc bool
}

func c02Model(nPre int, relaxed bool) porcupine.Model {
	return porcupine.Model{
		Init: func() interface{} { return c02St{open: nPre} },
		Step: func(state, input, output interface{}) (bool, interface{}) {
			s := state.(c02St)
			in := input.(c02In)
			switch in.k {
			case "open":
				s.open++
			case "close":
				s.open--
			case "fclose":
				s.canc = true
			case "set":
				if c02Valid(in.x) && s.dt == "" {
					s.dt = in.x
				}
			case "get":
				r := output.(string)
				if s.dt != "" {
					return r == s.dt, s
				}
				return r == "*" && (relaxed || s.open < 1 || s.canc), s
			}
			return true, s
		},
	}
}

func c02Lin(evs []c02Ev, obj, nPre int, relaxed bool) porcupine.CheckResult {
	var ops []porcupine.Operation
	for _, v := range evs {
		if v.obj != obj {
			continue
		}
		ops = append(ops, porcupine.Operation{ClientId: v.actor, Input: c02In{v.k, v.x}, Call: v.call, Output: v.out, Return: v.ret})
	}
	if len(ops) == 0 {
		return porcupine.Ok
	}
	return porcupine.CheckOperationsTimeout(c02Model(nPre, relaxed), ops, 20*time.Second)
}

// ---------------------------------------------------------------- run

func runC02(c *Case, e *Env) Outcome {
	var w0 c02W
	if err := json.Unmarshal(c.W, &w0); err != nil {
		return Outcome{Verdict: "inconclusive", Clause: "bad-case", Detail: err.Error()}
	}
	w := c02Norm(w0)
	nPre := 0
	for _, a := range w.Actors {
		if a.Pre {
			nPre++
		}
	}
	total := len(w.Actors)
	if w.CancelAt >= 0 {
		total++
	}
	var (
		evs        []c02Ev
		done       int
		validSet   bool // a valid SetDataType has returned
		heldTotal  = nPre
		waited     int
		pendingGet int
	)
	res := e.Bubble(c.Sched, func() {
		p := streams.NewStdin()
		var out stdio.Io = p
		var sec *streams.Stdin
		if w.Tee {
			var tee *streams.Tee
			tee, sec = streams.NewTee(p)
			out = tee
		}
		for i := 0; i < nPre; i++ {
			out.Open()
		}
		get := func(actor int, tgt string) {
			var io stdio.Io = p
			obj := 0
			switch tgt {
			case "t":
				io = out
			case "s":
				io, obj = sec, 1
			}
			if obj == 0 && !validSet && heldTotal > 0 {
				waited++
			}
			pendingGet++
			call := simrt.Stamp()
			r := io.GetDataType()
			ret := simrt.Stamp()
			pendingGet--
			evs = append(evs, c02Ev{obj: obj, k: "get", out: r, call: call, ret: ret, actor: actor})
		}
		finish := func(actor int) {
			done++
			if done == total && w.Final {
				get(actor, "p")
				if w.Tee {
					get(actor, "s")
				}
			}
		}
		for ai, a := range w.Actors {
			ai, a := ai, a
			simrt.Go(func() {
				held := 0
				if a.Pre {
					held = 1
				}
				cl := func() {
					call := simrt.Stamp()
					out.Close()
					heldTotal--
					evs = append(evs, c02Ev{k: "close", call: call, ret: simrt.Stamp(), actor: ai})
					held--
				}
				for _, op := range a.Ops {
					switch op.K {
					case "set":
						call := simrt.Stamp()
						out.SetDataType(op.X)
						ret := simrt.Stamp()
						if c02Valid(op.X) {
							validSet = true
						}
						evs = append(evs, c02Ev{k: "set", x: op.X, call: call, ret: ret, actor: ai})
						if w.Tee {
							evs = append(evs, c02Ev{obj: 1, k: "set", x: op.X, call: call, ret: ret, actor: ai})
						}
					case "open":
						call := simrt.Stamp()
						heldTotal++
						out.Open()
						evs = append(evs, c02Ev{k: "open", call: call, ret: simrt.Stamp(), actor: ai})
						held++
					case "close":
						cl()
					case "get":
						get(ai, op.X)
					case "yield":
						simrt.Yield("c02")
					}
				}
				for held > 0 {
					cl()
				}
				finish(ai)
			})
		}
		if w.CancelAt >= 0 {
			simrt.Go(func() {
				simrt.WaitStep(w.CancelAt)
				if pendingGet > 0 {
					e.Fault("cancel-inflight-get")
				} else if done < len(w.Actors) {
					e.Fault("cancel-midrun")
				} else {
					e.Fault("cancel-idle")
				}
				call := simrt.Stamp()
				out.ForceClose()
				evs = append(evs, c02Ev{k: "fclose", call: call, ret: simrt.Stamp(), actor: len(w.Actors)})
				finish(len(w.Actors))
			})
		}
	})
	if res.Panic != "" {
		return Outcome{Verdict: "panic", Clause: "panic", Detail: res.Panic}
	}
	if done != total {
		// cannot happen when the bubble ended OK (a stuck actor is a hang/deadlock verdict of the simulator)
		return Outcome{Verdict: "inconclusive", Clause: "actors-unfinished", Detail: fmt.Sprintf("%d of %d actors finished", done, total)}
	}
	if waited > 0 {
		e.Probe("get-invoked-before-any-type")
	}
	nGen, nTyped, nIgnored := 0, 0, 0
	firstValid := int64(-1)
	for _, v := range evs {
		if v.obj == 0 && v.k == "set" && c02Valid(v.x) && (firstValid < 0 || v.ret < firstValid) {
			firstValid = v.ret
		}
	}
	for _, v := range evs {
		if v.obj != 0 {
			continue
		}
		switch {
		case v.k == "get" && v.out == "*":
			nGen++
		case v.k == "get":
			nTyped++
		case v.k == "set" && (!c02Valid(v.x) || (firstValid >= 0 && v.call > firstValid)):
			nIgnored++
		}
	}
	if nGen > 0 {
		e.Probe("get-returned-generic")
	}
	if nTyped > 0 {
		e.Probe("get-returned-declared")
	}
	if nIgnored > 0 {
		e.Probe("set-that-must-be-ignored")
	}

	// ---- oracle
	type objSpec struct {
		obj     int
		relaxed bool
		prefix  string
		name    string
	}
	specs := []objSpec{{0, false, "", "pipe"}}
	if w.Tee {
		specs = append(specs, objSpec{1, true, "tee-secondary-", "tee secondary"})
	}
	for _, sp := range specs {
		clause, detail := c02Direct(evs, sp.obj, nPre, sp.relaxed)
		lin := c02Lin(evs, sp.obj, nPre, sp.relaxed)
		switch {
		case lin == porcupine.Unknown:
			e.Probe("lin-unknown")
			if clause == "" {
				return Outcome{Verdict: "inconclusive", Clause: "lin-unknown", Detail: c02History(evs, sp.obj)}
			}
		case lin == porcupine.Ok && clause != "":
			// the direct checks are consequences of the model: disagreement is a harness error, never a verdict on murex
			e.Probe("oracle-disagreement")
			return Outcome{Verdict: "inconclusive", Clause: "oracle-disagreement", Detail: clause + ": " + detail + " | " + c02History(evs, sp.obj)}
		case lin == porcupine.Illegal && clause == "":
			clause, detail = "not-linearizable", "no order of the operations consistent with their call/return stamps satisfies the sequential model (dt, openWriters, cancelled)"
		}
		if clause != "" {
			return violation(sp.prefix+clause, "%s: %s | history(%d writers opened at start): %s", sp.name, detail, nPre, c02History(evs, sp.obj))
		}
	}
	return okOutcome()
}

// ---------------------------------------------------------------- shrink

func shrinkC02(c *Case) []Case {
	var w0 c02W
	json.Unmarshal(c.W, &w0)
	w := c02Norm(w0)
	base := string(mustJSON(w))
	var out []Case
	seen := map[string]bool{base: true}
	cp := func() c02W {
		var v c02W
		json.Unmarshal([]byte(base), &v)
		return v
	}
	emit := func(v c02W) {
		v = c02Norm(v)
		j := mustJSON(v)
		if seen[string(j)] {
			return
		}
		seen[string(j)] = true
		out = append(out, Case{Class: c02Class(v), W: j, Sched: c.Sched})
	}
	for i := range w.Actors { // drop an actor
		if len(w.Actors) > 1 {
			v := cp()
			v.Actors = append(v.Actors[:i:i], v.Actors[i+1:]...)
			emit(v)
		}
	}
	if w.CancelAt >= 0 {
		v := cp()
		v.CancelAt = -1
		emit(v)
	}
	if w.Tee {
		v := cp()
		v.Tee = false
		emit(v)
	}
	if w.Final {
		v := cp()
		v.Final = false
		emit(v)
	}
	for i := range w.Actors { // second half / first half of a script
		if n := len(w.Actors[i].Ops); n > 2 {
			v := cp()
			v.Actors[i].Ops = v.Actors[i].Ops[:n/2]
			emit(v)
			v = cp()
			v.Actors[i].Ops = v.Actors[i].Ops[n/2:]
			emit(v)
		}
	}
	for i := range w.Actors { // drop single ops
		for k := range w.Actors[i].Ops {
			v := cp()
			v.Actors[i].Ops = append(v.Actors[i].Ops[:k:k], v.Actors[i].Ops[k+1:]...)
			emit(v)
		}
	}
	for i := range w.Actors { // a writer becomes an unopened actor
		if w.Actors[i].Pre {
			v := cp()
			v.Actors[i].Pre = false
			emit(v)
		}
	}
	// simplify names: all valid names other than "*" become a, b, c... in order of appearance; "null" becomes ""
	{
		v := cp()
		ren := map[string]string{}
		for i := range v.Actors {
			for k, op := range v.Actors[i].Ops {
				if op.K != "set" || !c02Valid(op.X) || op.X == "*" {
					continue
				}
				if _, ok := ren[op.X]; !ok {
					ren[op.X] = string(rune('a' + len(ren)%26))
				}
				v.Actors[i].Ops[k].X = ren[op.X]
			}
		}
		emit(v)
		for i := range w.Actors {
			for k, op := range w.Actors[i].Ops {
				if op.K == "set" && op.X == "null" {
					v := cp()
					v.Actors[i].Ops[k].X = ""
					emit(v)
				}
				if op.K == "get" && op.X == "t" {
					v := cp()
					v.Actors[i].Ops[k].X = "p"
					emit(v)
				}
			}
		}
	}
	if w.CancelAt > 0 {
		v := cp()
		v.CancelAt /= 2
		emit(v)
		v = cp()
		v.CancelAt = 0
		emit(v)
	}
	for _, st := range []string{"rr", "pb0"} {
		if c.Sched.Strategy != st {
			v := Case{Class: c.Class, W: c.W, Sched: c.Sched}
			v.Sched.Strategy = st
			v.Sched.Decisions = nil
			out = append(out, v)
		}
	}
	return out
}
