// Package h is the mxsim worker: a Go test binary (testing/synctest needs a
// *testing.T) built against an instrumented scratch copy of murex. The driver
// (tools/cmd/mxsim) hands it a job file through MXSIM_JOB; it appends one JSON
// record per simulated case to the job's output file.
package h

import (
	"encoding/json"
	"fmt"
	"os"
	"runtime/debug"
	"sort"
	"strings"
	"testing"
	"testing/synctest"
	"time"

	"github.com/lmorg/murex/utils/simrt"
)

// ---------------------------------------------------------------- PRNG

// Rand: splitmix64, the single source of every generated choice.
type Rand struct{ s uint64 }

func NewRand(seed uint64) *Rand { return &Rand{s: seed} }
func (r *Rand) U64() uint64 {
	r.s += 0x9e3779b97f4a7c15
	z := r.s
	z = (z ^ (z >> 30)) * 0xbf58476d1ce4e5b9
	z = (z ^ (z >> 27)) * 0x94d049bb133111eb
	return z ^ (z >> 31)
}
func (r *Rand) Intn(n int) int {
	if n <= 1 {
		return 0
	}
	return int(r.U64() % uint64(n))
}
func (r *Rand) Bool() bool         { return r.U64()&1 == 1 }
func (r *Rand) Chance(p float64) bool { return float64(r.U64()>>11)/(1<<53) < p }
func (r *Rand) Pick(s []string) string { return s[r.Intn(len(s))] }

func mix(a, b uint64) uint64 {
	r := Rand{s: a ^ (b * 0x9e3779b97f4a7c15)}
	r.U64()
	return r.U64()
}

func strHash(s string) uint64 {
	h := uint64(14695981039346656037)
	for i := 0; i < len(s); i++ {
		h = (h ^ uint64(s[i])) * 1099511628211
	}
	return h
}

// ---------------------------------------------------------------- protocol

type Sched struct {
	Seed      uint64  `json:"seed"`
	Strategy  string  `json:"strategy"`
	Decisions []int   `json:"decisions,omitempty"`
	JumpProb  float64 `json:"jump_prob,omitempty"`
	DelayProb float64 `json:"delay_prob,omitempty"`
	MaxSteps  int     `json:"max_steps,omitempty"`
	MaxSimSec int     `json:"max_sim_sec,omitempty"`
	EstLen    int     `json:"est_len,omitempty"`
}

// Case is one fully explicit simulated execution: workload, knobs, faults
// (all inside W) and the schedule. It is what a replay file holds.
type Case struct {
	H     string          `json:"h"`
	Class string          `json:"class"`
	W     json.RawMessage `json:"w"`
	Sched Sched           `json:"sched"`
}

type Job struct {
	Prop   string `json:"prop"`
	Mode   string `json:"mode"` // search | case | shrink
	Tier   string `json:"tier"`
	Seed0  uint64 `json:"seed0"`
	From   int    `json:"from"`
	Count  int    `json:"count"`
	Stride int    `json:"stride"`
	Out    string `json:"out"`
	Case   *Case  `json:"case,omitempty"`
	Full   bool   `json:"full"`   // record decisions + trace
	Sample int    `json:"sample"` // attach the case to every n-th ok record
	Tmp    string `json:"tmp"`    // private scratch directory ("disk")
	Aux    string `json:"aux"`    // helper binary etc.
}

type Record struct {
	I        int            `json:"i"`
	Seed     uint64         `json:"seed"`
	Verdict  string         `json:"verdict"` // ok | violation | deadlock | hang | panic | inconclusive
	Clause   string         `json:"clause,omitempty"`
	Detail   string         `json:"detail,omitempty"`
	Class    string         `json:"class,omitempty"`
	Strategy string         `json:"strategy,omitempty"`
	Bubbles  int            `json:"bubbles"`
	Steps    int            `json:"steps"`
	Switches int            `json:"switches"`
	Advances int            `json:"advances"`
	Jumps    int            `json:"jumps"`
	SimNs    int64          `json:"sim_ns"`
	MaxTasks int            `json:"max_tasks"`
	Anon     int            `json:"anon"`
	Leaked   int            `json:"leaked"`
	Hash     string         `json:"hash"`
	Diverged bool           `json:"diverged,omitempty"`
	Faults   map[string]int `json:"faults,omitempty"`
	Probes   map[string]int `json:"probes,omitempty"`
	Case     *Case          `json:"case,omitempty"`
	Decided  []int          `json:"decided,omitempty"`
	Trace    []string       `json:"trace,omitempty"`
	Obs      string         `json:"obs,omitempty"`
	WallUs   int64          `json:"wall_us"`
}

// Outcome is what a harness reports for one case.
type Outcome struct {
	Verdict string
	Clause  string
	Detail  string
	Obs     string
}

func okOutcome() Outcome { return Outcome{Verdict: "ok"} }
func violation(clause, format string, a ...any) Outcome {
	return Outcome{Verdict: "violation", Clause: clause, Detail: fmt.Sprintf(format, a...)}
}

// Harness: one per property (some properties have several classes inside one harness).
type Harness struct {
	Name   string
	Gen    func(r *Rand, tier string) Case // fills H, Class, W and Sched (strategy, est len, budgets); Sched.Seed is set by the core
	Run    func(c *Case, e *Env) Outcome
	Shrink func(c *Case) []Case // simpler variants of the workload, most aggressive first
	Init   func(j *Job)         // once per worker process
	GenI   func(i int, r *Rand, tier string) Case // instead of Gen: the i-th case of an enumerated space
}

var harnesses = map[string]*Harness{}

func register(h *Harness) { harnesses[h.Name] = h }

var propHarness = map[string]string{} // property id -> harness name

// ---------------------------------------------------------------- Env: one case, possibly several bubbles

type Env struct {
	t       *testing.T
	job     *Job
	rec     *Record
	full    bool
	mustDie bool
	c       *Case
	hashAcc uint64
}

type SimResult struct {
	V      simrt.Verdict
	Sim    *simrt.Sim
	Panic  string // panic text of the bubble, if any
	Probes map[string]int
}

var strategies = []string{"rw", "rw", "rw", "pct1", "pct2", "pct3", "pb0", "pb1", "pb2", "pb3", "rr"}

func pickStrategy(r *Rand) string { return strategies[r.Intn(len(strategies))] }

// Bubble runs root as the root task of one simulated execution.
func (e *Env) Bubble(sc Sched, root func()) SimResult {
	cfg := simrt.Config{Seed: sc.Seed, Strategy: sc.Strategy, Decisions: sc.Decisions, MaxSteps: sc.MaxSteps,
		MaxSim: time.Duration(sc.MaxSimSec) * time.Second, EstLen: sc.EstLen, JumpProb: sc.JumpProb, DelayProb: sc.DelayProb,
		Trace: e.full, Record: e.full}
	var res SimResult
	func() {
		defer func() {
			if r := recover(); r != nil {
				msg := fmt.Sprint(r)
				if strings.Contains(msg, "blocked goroutines remain") {
					// goroutines still blocked when the bubble ended: a leak probe, not a verdict
					e.rec.Leaked++
					return
				}
				res.Panic = msg + "\n" + string(debug.Stack())
			}
		}()
		synctest.Test(e.t, func(t *testing.T) {
			s := simrt.New(cfg)
			res.Sim = s
			res.V = s.Run(root)
			if res.V != simrt.OK {
				// parked goroutines cannot be abandoned: report and leave the process
				e.absorb(&res)
				e.mustDie = true
				e.rec.Verdict = map[simrt.Verdict]string{simrt.Deadlock: "deadlock", simrt.StepBudget: "hang", simrt.SimTimeBudget: "hang"}[res.V]
				e.rec.Clause = res.V.String()
				e.rec.Detail = "last decisions: " + strings.Join(lastTrace(s), " | ")
				e.rec.Case = e.c
				flush(e.job, e.rec)
				os.Exit(3)
			}
		})
	}()
	e.absorb(&res)
	return res
}

func lastTrace(s *simrt.Sim) []string {
	tr := s.TraceLog()
	if len(tr) > 12 {
		tr = tr[len(tr)-12:]
	}
	return tr
}

func (e *Env) absorb(res *SimResult) {
	s := res.Sim
	if s == nil {
		return
	}
	r := e.rec
	r.Bubbles++
	r.Steps += s.Steps
	r.Switches += s.Switches
	r.Advances += s.Advances
	r.Jumps += s.JumpsN
	if s.Delayed > 0 {
		if r.Faults == nil {
			r.Faults = map[string]int{}
		}
		r.Faults["goroutine-start-delayed"] += s.Delayed
	}
	r.SimNs += int64(s.SimElapsed())
	if s.MaxTasks > r.MaxTasks {
		r.MaxTasks = s.MaxTasks
	}
	r.Anon += int(s.Anon)
	r.Leaked += int(s.Leaked)
	if s.Diverged {
		r.Diverged = true
	}
	e.hashAcc = mix(e.hashAcc, s.Hash)
	r.Hash = fmt.Sprintf("%016x", e.hashAcc)
	res.Probes = s.Probes()
	for k, v := range res.Probes {
		if r.Probes == nil {
			r.Probes = map[string]int{}
		}
		r.Probes[k] += v
	}
	if e.full {
		r.Decided = append(r.Decided, s.Decisions()...)
		r.Trace = append(r.Trace, s.TraceLog()...)
	}
}

func (e *Env) Fault(kind string) {
	if e.rec.Faults == nil {
		e.rec.Faults = map[string]int{}
	}
	e.rec.Faults[kind]++
}

func (e *Env) Probe(name string) {
	if e.rec.Probes == nil {
		e.rec.Probes = map[string]int{}
	}
	e.rec.Probes[name]++
}

// ---------------------------------------------------------------- worker main

var outFile *os.File

func flush(j *Job, r *Record) {
	b, _ := json.Marshal(r)
	outFile.Write(append(b, '\n'))
}

func TestWorker(t *testing.T) {
	path := os.Getenv("MXSIM_JOB")
	if path == "" {
		t.Skip("no MXSIM_JOB")
	}
	b, err := os.ReadFile(path)
	if err != nil {
		t.Fatal(err)
	}
	var job Job
	if err := json.Unmarshal(b, &job); err != nil {
		t.Fatal(err)
	}
	outFile, err = os.OpenFile(job.Out, os.O_APPEND|os.O_CREATE|os.O_WRONLY, 0644)
	if err != nil {
		t.Fatal(err)
	}
	hn := propHarness[job.Prop]
	if job.Case != nil {
		hn = job.Case.H
	}
	h := harnesses[hn]
	if h == nil {
		fmt.Fprintf(os.Stderr, "mxsim worker: no harness for %q\n", job.Prop)
		os.Exit(2)
	}
	if h.Init != nil {
		h.Init(&job)
	}
	if job.Stride == 0 {
		job.Stride = 1
	}
	switch job.Mode {
	case "search":
		for k := 0; k < job.Count; k++ {
			i := job.From + k*job.Stride
			seed := mix(mix(job.Seed0, strHash(job.Prop)), uint64(i))
			r := NewRand(seed)
			var c Case
			if h.GenI != nil {
				c = h.GenI(i, r, job.Tier) // enumerating harness: case i of a finite space
			} else {
				c = h.Gen(r, job.Tier)
			}
			c.H = h.Name
			c.Sched.Seed = r.U64()
			rec := runCase(t, &job, h, &c, i, seed, job.Full)
			if rec.Verdict != "ok" || (job.Sample > 0 && k%job.Sample == 0) {
				rec.Case = &c
			}
			flush(&job, rec)
		}
	case "case":
		c := job.Case
		rec := runCase(t, &job, h, c, job.From, 0, job.Full)
		rec.Case = c
		flush(&job, rec)
	case "shrink":
		var cands []Case
		if h.Shrink != nil {
			cands = h.Shrink(job.Case)
		}
		for i := range cands {
			cands[i].H = job.Case.H
			if cands[i].Class == "" {
				cands[i].Class = job.Case.Class
			}
			b, _ := json.Marshal(map[string]any{"cand": cands[i]})
			outFile.Write(append(b, '\n'))
		}
	default:
		os.Exit(2)
	}
	outFile.Write([]byte("{\"done\":true}\n"))
}

func runCase(t *testing.T, job *Job, h *Harness, c *Case, i int, seed uint64, full bool) *Record {
	rec := &Record{I: i, Seed: seed, Class: c.Class, Strategy: c.Sched.Strategy}
	// the case goes out before it runs: a worker killed by the case (panic in a bare goroutine,
	// runtime fatal error, race report) can then still be minimised and replayed by the driver
	sb, _ := json.Marshal(map[string]any{"start": i, "case": c})
	outFile.Write(append(sb, '\n'))
	e := &Env{t: t, job: job, rec: rec, full: full, c: c}
	t0 := time.Now()
	out := h.Run(c, e)
	rec.WallUs = time.Since(t0).Microseconds()
	rec.Verdict, rec.Clause, rec.Detail, rec.Obs = out.Verdict, out.Clause, out.Detail, out.Obs
	if len(rec.Detail) > 4000 {
		rec.Detail = rec.Detail[:4000] + "…"
	}
	return rec
}

// ---------------------------------------------------------------- small helpers shared by harnesses

func mustJSON(v any) json.RawMessage {
	b, err := json.Marshal(v)
	if err != nil {
		panic(err)
	}
	return b
}

func sortedKeys(m map[string]int) []string {
	var k []string
	for s := range m {
		k = append(k, s)
	}
	sort.Strings(k)
	return k
}

func defaultSched(r *Rand, est, maxSteps, maxSimSec int) Sched {
	return Sched{Strategy: pickStrategy(r), EstLen: est, MaxSteps: maxSteps, MaxSimSec: maxSimSec}
}
