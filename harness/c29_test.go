package h

// C29: shell history survives restarts and crashes (shell/history).
//
// A case is a "history script": a sequence of sessions on one file in the job's
// private directory. A session is history.New(file) followed by Write(cmd)
// calls. A session may die during its last Write (F-crash): the bytes that
// Write appended are cut at an offset k (0 <= k < len), the History object is
// dropped, and the following sessions carry on with the file as it is. A crash
// carries a list of offsets; every offset is evaluated with the whole rest of
// the script (one (history, offset) pair each). A step can also be a group of
// concurrent sessions (two shells on one file) whose Writes the scheduler
// interleaves.
//
// Oracle (from the statement): after every history.New the entries read through
// Len/GetLine, consecutive duplicates collapsed, must equal the commands
// recorded so far in order, consecutive duplicates collapsed, where only a
// command whose write was cut may be absent. For a concurrent group any
// interleaving that keeps each session's own order is accepted.
//
// Domain: commands are non-empty valid UTF-8 without leading/trailing white
// space (what a line editor hands over after trimming); the statement is silent
// about anything else and the harness refuses such cases as "bad-case".

import (
	"encoding/json"
	"fmt"
	"os"
	"path/filepath"
	"runtime/debug"
	"sort"
	"strings"
	"sync"
	"unicode/utf8"

	"github.com/lmorg/murex/shell/history"
	"github.com/lmorg/murex/utils/simrt"
)

// c29Cmd is one command, explicit but compact: P + Fill repeated N times + S.
type c29Cmd struct {
	P    string `json:"p"`
	Fill string `json:"fill,omitempty"`
	N    int    `json:"n,omitempty"`
	S    string `json:"s,omitempty"`
}

func (c c29Cmd) text() string {
	if c.N <= 0 || c.Fill == "" {
		return c.P + c.S
	}
	return c.P + strings.Repeat(c.Fill, c.N) + c.S
}

func (c c29Cmd) size() int {
	if c.N <= 0 {
		return len(c.P) + len(c.S)
	}
	return len(c.P) + len(c.Fill)*c.N + len(c.S)
}

// c29Crash: the session dies during its last Write. Offsets are relative to the
// bytes that Write appended: k >= 0 means k bytes reached the file, k < 0 means
// all but -k bytes did (-1: only the final byte is missing). Offsets beyond the
// record are clamped into [0, len-1]. All: every offset; for records longer than
// Spread+128 bytes the first and last 64 offsets plus Spread evenly spread ones.
type c29Crash struct {
	Cuts   []int `json:"cuts,omitempty"`
	All    bool  `json:"all,omitempty"`
	Spread int   `json:"spread,omitempty"`
}

type c29Step struct {
	Cmds  []c29Cmd   `json:"cmds,omitempty"`  // one session: New, then Write each
	Crash *c29Crash  `json:"crash,omitempty"` // ... which dies during its last Write
	Par   [][]c29Cmd `json:"par,omitempty"`   // instead: concurrent sessions on the file, Writes interleaved by the scheduler
}

type c29W struct {
	Steps []c29Step `json:"steps"`
}

func init() {
	register(&Harness{Name: "c29", Gen: genC29, Run: runC29, Shrink: shrinkC29, Init: initC29})
	propHarness["C29"] = "c29"
}

// initC29: Write looks up shell/history-write-enabled, so murex's config must exist. The worker
// process serves this property only; reloading histories with 200 KiB entries is allocation-heavy
// and the live heap is tiny, so collect less often (wall time only, no effect on any outcome).
func initC29(j *Job) {
	initMurex(j)
	debug.SetGCPercent(800)
}

// ---------------------------------------------------------------- generator

var c29Short = []string{
	"echo hello", "ls -la /tmp | grep", "out: the quick brown #fox", "git commit -m 'fix: thing'",
	"cd ~/src && make test", "a [1..5] -> foreach i { out $i }", "config set shell max-suggestions",
	"cat <in.txt >out.txt 2>&1 &", "x", "!!", "^foo^bar", "open https://example.com/?q=a&b=c#frag", "%[1,2,3] -> [0]",
}

var c29Fills = []string{"a", "xyz ", "0123456789abcdef", "é", "日本語", "🎉", "line\n", "\\", "\"", "\t-", "<&>", "\r\n", "\x00", "{\"block\":\"x\"}\n"}

func c29GenCmd(r *Rand, id int, onlySmall bool) c29Cmd {
	// skewed small: ~88% under 200 bytes, ~8% 1-10 KiB, ~1.5% 10-64 KiB, ~2.5% 60-200 KiB
	roll := r.Intn(1000) / 10
	if big := r.Intn(1000); big < 120 && !onlySmall {
		switch {
		case big < 80:
			roll = 80
		case big < 95:
			roll = 90
		default:
			roll = 94
		}
	} else {
		roll = roll * 80 / 100
	}
	switch {
	case roll < 50:
		return c29Cmd{P: fmt.Sprintf("%s %d", r.Pick(c29Short), id)}
	case roll < 62: // multi-line
		return c29Cmd{P: fmt.Sprintf("function f%d {\n\tout \"line one\"\n\n    out 'line three'\r\n}\n# trailing comment %d", id, id)}
	case roll < 72: // Unicode: accents, CJK, astral plane, combining mark, bidi override, NBSP and U+2028 inside
		return c29Cmd{P: fmt.Sprintf("echo h\u00e9llo w\u00f6rld \u2713 \u65e5\u672c\u8a9e \U0001F389 \u03a9\u2248\u00e7\u221a \u202eabc\u202c e\u0301 \u00a0\u2028 %d \u2713", id)}
	case roll < 80: // characters that need escaping in any sensible on-disk format
		return c29Cmd{P: fmt.Sprintf("out \"{\\\"block\\\":\\\"fake\\\"}\" \\ \t tab \x00\x01\x1b[31m </script> & 'q' \u007f \\n \\u0041 %d}", id)}
	case roll < 90: // medium, 1-10 KiB
		f := r.Pick(c29Fills)
		n := (1024 + r.Intn(9*1024)) / len(f)
		return c29Cmd{P: fmt.Sprintf("echo %d ", id), Fill: f, N: n, S: " #end"}
	case roll < 94: // 10-64 KiB
		f := r.Pick(c29Fills)
		n := (10*1024 + r.Intn(54*1024)) / len(f)
		return c29Cmd{P: fmt.Sprintf("echo %d ", id), Fill: f, N: n, S: " #end"}
	default: // long, up to 200 KiB
		f := r.Pick(c29Fills)
		const max = 200 * 1024
		p, s := fmt.Sprintf("echo %d ", id), " #end"
		var sz int
		switch r.Intn(4) {
		case 0:
			sz = 60*1024 + r.Intn(12*1024)
		case 1:
			sz = max - r.Intn(64)
		default:
			sz = 64*1024 + r.Intn(max-64*1024)
		}
		n := (sz - len(p) - len(s)) / len(f)
		return c29Cmd{P: p, Fill: f, N: n, S: s}
	}
}

// c29EstRecord: a guess of how many bytes a record of this command takes on disk, only used
// to spread sampled offsets (the real length is measured at run time; offsets are clamped).
func c29EstRecord(c c29Cmd) int {
	b, _ := json.Marshal(c.text())
	return len(b) + 40
}

func c29GenCuts(r *Rand, c c29Cmd, tier string, single bool) *c29Crash {
	est := c29EstRecord(c)
	tailSpan := 80
	if tailSpan > est {
		tailSpan = est
	}
	one := func() int {
		switch r.Intn(8) {
		case 0:
			return 0
		case 1:
			return -1
		case 2:
			return -1 - r.Intn(tailSpan)
		case 3:
			return 1 + r.Intn(48)
		default:
			return 1 + r.Intn(est)
		}
	}
	if single {
		return &c29Crash{Cuts: []int{one()}}
	}
	if tier == "thorough" {
		sp := 4096
		switch {
		case est > 64*1024:
			sp = 256
		case est > 8*1024:
			sp = 1024
		}
		return &c29Crash{All: true, Spread: sp}
	}
	cuts := []int{0, -1, 1, -2}
	for i := 0; i < 10; i++ {
		cuts = append(cuts, 2+r.Intn(est))
	}
	for i := 0; i < 4; i++ {
		cuts = append(cuts, -3-r.Intn(tailSpan))
	}
	return &c29Crash{Cuts: cuts}
}

func genC29(r *Rand, tier string) Case {
	total := 1 + r.Intn(20)
	class := "crash"
	switch roll := r.Intn(100); {
	case roll < 12:
		class = "clean"
	case roll < 30:
		class = "concurrent"
	}
	nSess := 1 + r.Intn(5)
	if nSess > total {
		nSess = total
	}
	// partition the commands among the sessions, each at least one
	sizes := make([]int, nSess)
	for i := range sizes {
		sizes[i] = 1
	}
	for k := nSess; k < total; k++ {
		sizes[r.Intn(nSess)]++
	}
	parAt := -1
	if class == "concurrent" {
		parAt = r.Intn(nSess)
		if sizes[parAt] < 2 {
			sizes[parAt] = 2
		}
	}
	var w c29W
	var all []c29Cmd
	id := 0
	next := func(small bool) c29Cmd {
		id++
		var c c29Cmd
		switch roll := r.Intn(100); {
		case roll < 9 && len(all) > 0: // consecutive duplicate (also across a restart)
			c = all[len(all)-1]
		case roll < 12 && len(all) > 0: // an older command again
			c = all[r.Intn(len(all))]
		default:
			c = c29GenCmd(r, id, small)
		}
		all = append(all, c)
		return c
	}
	for s := 0; s < nSess; s++ {
		var st c29Step
		if s == parAt {
			np := 2
			if sizes[s] >= 3 && r.Intn(4) == 0 {
				np = 3
			}
			st.Par = make([][]c29Cmd, np)
			for k := 0; k < sizes[s]; k++ {
				p := k
				if k >= np {
					p = r.Intn(np)
				}
				// mostly small; a third are a few KiB (larger than any buffer a writer might put in front of the
				// file, so that one record can become more than one system call)
				c := next(r.Intn(3) > 0)
				if c.size() > 16*1024 { // keep concurrent groups cheap; a duplicate may have copied a big one
					c = c29Cmd{P: fmt.Sprintf("par %d ", id), Fill: r.Pick(c29Fills), N: 4200 + r.Intn(4000), S: " #end"}
					all[len(all)-1] = c
				}
				st.Par[p] = append(st.Par[p], c)
			}
		} else {
			for k := 0; k < sizes[s]; k++ {
				st.Cmds = append(st.Cmds, next(false))
			}
		}
		w.Steps = append(w.Steps, st)
	}
	// crashes: the last one carries the offset list, an earlier one a single offset
	nCrash := 0
	switch class {
	case "crash":
		nCrash = 1
		if r.Intn(4) == 0 {
			nCrash = 2
		}
	case "concurrent":
		nCrash = r.Intn(2)
	}
	var seq []int // sequential steps
	for i, st := range w.Steps {
		if len(st.Par) == 0 {
			seq = append(seq, i)
		}
	}
	if nCrash > len(seq) {
		nCrash = len(seq)
	}
	if nCrash > 0 {
		// usually leave at least one session after the last crash ("followed by further sessions appending more")
		hi := len(seq)
		if hi > nCrash && r.Intn(8) != 0 {
			hi--
		}
		lastK := nCrash - 1 + r.Intn(hi-nCrash+1)
		st := &w.Steps[seq[lastK]]
		st.Crash = c29GenCuts(r, st.Cmds[len(st.Cmds)-1], tier, false)
		if nCrash == 2 {
			st0 := &w.Steps[seq[r.Intn(lastK)]]
			st0.Crash = c29GenCuts(r, st0.Cmds[len(st0.Cmds)-1], tier, true)
		}
	}
	sc := defaultSched(r, 20+10*total, 8000000, 0)
	return Case{Class: class, W: mustJSON(w), Sched: sc}
}

// ---------------------------------------------------------------- model

// c29Seg is one element of the model: a recorded command (opt: its write was cut, it may be
// absent) or a concurrent group (par: each session's commands in its own order).
type c29Seg struct {
	text string
	opt  bool
	torn bool // the cut left a non-empty torn record in the file
	rec  int  // bytes the Write call appended to the file (observed; diagnostics only)
	par  [][]string
	flat []string // par only: the order in which the Write calls returned (diagnostics only)
}

func c29Collapse(l []string) []string {
	var out []string
	for _, s := range l {
		if len(out) == 0 || out[len(out)-1] != s {
			out = append(out, s)
		}
	}
	return out
}

// c29Step1: consume command x at position pos of got (got has no consecutive duplicates)
func c29Step1(got []string, pos int, x string) int {
	if pos > 0 && got[pos-1] == x {
		return pos // consecutive duplicate: one entry
	}
	if pos < len(got) && got[pos] == x {
		return pos + 1
	}
	return -1
}

// c29Accepts: is got (collapsed) the collapsed form of some sequence the model allows?
func c29Accepts(model []c29Seg, got []string) bool {
	states := []int{0}
	add := func(set []int, p int) []int {
		for _, q := range set {
			if q == p {
				return set
			}
		}
		return append(set, p)
	}
	for _, seg := range model {
		var nx []int
		if seg.par == nil {
			for _, p := range states {
				if q := c29Step1(got, p, seg.text); q >= 0 {
					nx = add(nx, q)
				}
				if seg.opt {
					nx = add(nx, p)
				}
			}
		} else {
			type st struct {
				i   [3]int
				pos int
			}
			seen := map[st]bool{}
			var queue []st
			for _, p := range states {
				s := st{pos: p}
				if !seen[s] {
					seen[s] = true
					queue = append(queue, s)
				}
			}
			for len(queue) > 0 {
				s := queue[0]
				queue = queue[1:]
				done := true
				for k, cmds := range seg.par {
					if s.i[k] < len(cmds) {
						done = false
						if q := c29Step1(got, s.pos, cmds[s.i[k]]); q >= 0 {
							n := s
							n.i[k]++
							n.pos = q
							if !seen[n] {
								seen[n] = true
								queue = append(queue, n)
							}
						}
					}
				}
				if done {
					nx = add(nx, s.pos)
				}
			}
		}
		states = nx
		if len(states) == 0 {
			return false
		}
	}
	for _, p := range states {
		if p == len(got) {
			return true
		}
	}
	return false
}

func c29Abbr(s string) string {
	if len(s) <= 48 {
		return fmt.Sprintf("%q", s)
	}
	cut := 28
	for cut > 0 && !utf8.RuneStart(s[cut]) {
		cut--
	}
	return fmt.Sprintf("%q…(%d bytes)", s[:cut], len(s))
}

type c29Flat struct {
	text      string
	opt, torn bool
	rec       int
}

// c29Diagnose turns a rejected load into a clause + readable detail. The verdict itself was
// decided by c29Accepts; this only names the shape of the loss.
func c29Diagnose(model []c29Seg, got []string, where string) Outcome {
	var flat []c29Flat
	for _, s := range model {
		if s.par != nil {
			for _, t := range s.flat {
				flat = append(flat, c29Flat{text: t})
			}
			continue
		}
		flat = append(flat, c29Flat{s.text, s.opt, s.torn, s.rec})
	}
	// greedy alignment: seen[idx] = entry idx is accounted for by its own loaded entry; an entry that
	// equals the one loaded just before it is neither evidence nor missing (duplicates count once)
	j, maxMatched, jAtFirstMissing := 0, 0, -1
	var missing []int
	seen := make([]bool, len(flat))
	for idx, m := range flat {
		switch {
		case j > 0 && got[j-1] == m.text:
		case j < len(got) && got[j] == m.text:
			j++
			seen[idx] = true
			if m.rec > maxMatched {
				maxMatched = m.rec
			}
		default:
			if !m.opt {
				if len(missing) == 0 {
					jAtFirstMissing = j
				}
				missing = append(missing, idx)
			}
		}
	}
	var exp []string
	for i, m := range flat {
		a := fmt.Sprintf("#%d %s", i, c29Abbr(m.text))
		if m.opt {
			a += "?"
		}
		exp = append(exp, a)
	}
	var have []string
	for _, g := range got {
		have = append(have, c29Abbr(g))
	}
	var miss []string
	for _, i := range missing {
		miss = append(miss, fmt.Sprintf("#%d", i))
	}
	body := fmt.Sprintf("%s: loaded %d entries [%s]; recorded in order (?: write was cut, may be absent) [%s]; missing %s",
		where, len(got), strings.Join(have, ", "), strings.Join(exp, ", "), strings.Join(miss, " "))
	if j < len(got) {
		known := false
		for _, m := range flat {
			if m.text == got[j] {
				known = true
			}
		}
		if known {
			return violation("reordered-or-duplicated-entry", "entry %d %s is a recorded command but not at this place. %s", j, c29Abbr(got[j]), body)
		}
		return violation("altered-entry", "entry %d %s was never recorded in this form. %s", j, c29Abbr(got[j]), body)
	}
	if len(missing) == 0 {
		return violation("mismatch", "%s", body)
	}
	first := missing[0]
	// the nearest record before it that a crash left torn, with nothing in between that demonstrably loaded
	for k := first - 1; k >= 0 && (flat[k].opt || !seen[k]); k-- {
		if !flat[k].opt || !flat[k].torn {
			continue
		}
		// (a torn record that is itself longer than anything that loaded can also trip whatever limits
		// entry length; the clause names the structure of the witness, not the cause)
		return violation("lost-after-torn-record", "a command recorded after a torn record (#%d, %d bytes of it on disk) is lost although its own write completed: #%d %s. %s",
			k, flat[k].rec, first, c29Abbr(flat[first].text), body)
	}
	tail := j == jAtFirstMissing // nothing recorded after it demonstrably loaded
	if tail && flat[first].rec >= 1024 && flat[first].rec > maxMatched {
		return violation("lost-after-long-entry", "the history ends before entry #%d (command of %d bytes, %d bytes on disk: more than any entry that did load): it and the %d recorded after it are lost. %s",
			first, len(flat[first].text), flat[first].rec, len(missing)-1, body)
	}
	return violation("lost-entry", "%d recorded command(s) lost, first #%d %s. %s", len(missing), first, c29Abbr(flat[first].text), body)
}

// ---------------------------------------------------------------- run

func (c *c29Crash) resolve(n int) []int {
	if n <= 0 {
		return nil
	}
	var out []int
	if c.All {
		sp := c.Spread
		if sp <= 0 {
			sp = 4096
		}
		const edge = 64
		if n <= sp+2*edge {
			for k := 0; k < n; k++ {
				out = append(out, k)
			}
		} else {
			for k := 0; k < edge; k++ {
				out = append(out, k, n-1-k)
			}
			for i := 0; i < sp; i++ {
				out = append(out, edge+int(int64(i)*int64(n-2*edge)/int64(sp)))
			}
		}
	}
	for _, k := range c.Cuts {
		if k < 0 {
			k += n
		}
		if k < 0 {
			k = 0
		}
		if k >= n {
			k = n - 1
		}
		out = append(out, k)
	}
	sort.Ints(out)
	d := out[:0]
	for i, k := range out {
		if i == 0 || k != out[i-1] {
			d = append(d, k)
		}
	}
	return d
}

type c29Run struct {
	e     *Env
	w     *c29W
	file  string
	fail  *Outcome
	ctx   []string
	pairs int
	texts map[c29Cmd]string
}

// text: the command's text, built once per case (a script with many crash points replays its tail many times)
func (x *c29Run) text(c c29Cmd) string {
	if t, ok := x.texts[c]; ok {
		return t
	}
	t := c.text()
	x.texts[c] = t
	return t
}

func (x *c29Run) where(s string) string {
	if len(x.ctx) == 0 {
		return s
	}
	return s + " (" + strings.Join(x.ctx, "; ") + ")"
}

func (x *c29Run) failf(o Outcome) bool {
	if x.fail == nil {
		x.fail = &o
	}
	return false
}

// open starts a session and checks what it loaded against the model.
func (x *c29Run) open(model []c29Seg, what string) *history.History {
	h, err := history.New(x.file)
	if err != nil || h == nil {
		x.failf(violation("load-error", "%s: history.New returned (%v, %v)", x.where(what), h, err))
		return nil
	}
	n := h.Len()
	got := make([]string, 0, n)
	for i := 0; i < n; i++ {
		s, err := h.GetLine(i)
		if err != nil {
			x.failf(violation("getline-error", "%s: Len()=%d but GetLine(%d) returned %v", x.where(what), n, i, err))
			return nil
		}
		got = append(got, s)
	}
	x.e.Probe("loads-checked")
	gc := c29Collapse(got)
	if !c29Accepts(model, gc) {
		x.failf(c29Diagnose(model, gc, x.where(what)))
		return nil
	}
	return h
}

func (x *c29Run) write(h *history.History, txt, what string) bool {
	if _, err := h.Write(txt); err != nil {
		// not a fault the harness injected: the private directory misbehaved
		return x.failf(Outcome{Verdict: "inconclusive", Clause: "write-error", Detail: fmt.Sprintf("%s: Write returned %v", x.where(what), err)})
	}
	return true
}

func (x *c29Run) size() int64 {
	fi, err := os.Stat(x.file)
	if err != nil {
		return 0
	}
	return fi.Size()
}

// steps runs the script from step i on with the file as it is; false: stop, x.fail is set.
func (x *c29Run) steps(i int, model []c29Seg) bool {
	if i == len(x.w.Steps) {
		return x.open(model, "final reload") != nil
	}
	st := x.w.Steps[i]
	if len(st.Par) > 0 {
		return x.parStep(i, st, model)
	}
	what := fmt.Sprintf("session %d load", i)
	h := x.open(model, what)
	if h == nil {
		return false
	}
	for k, c := range st.Cmds {
		txt := x.text(c)
		what := fmt.Sprintf("session %d write %d", i, k)
		if k < len(st.Cmds)-1 || st.Crash == nil {
			s0 := x.size()
			if !x.write(h, txt, what) {
				return false
			}
			model = append(model[:len(model):len(model)], c29Seg{text: txt, rec: int(x.size() - s0)})
			continue
		}
		// F-crash during this write: every prefix of what the call appended is a state the crash can leave
		s0 := x.size()
		if !x.write(h, txt, what) {
			return false
		}
		full, err := os.ReadFile(x.file)
		if err != nil || int64(len(full)) < s0 {
			return x.failf(Outcome{Verdict: "inconclusive", Clause: "disk", Detail: fmt.Sprintf("%s: cannot read the file back: %v (%d bytes, %d before the write)", x.where(what), err, len(full), s0)})
		}
		n := len(full) - int(s0)
		cuts := st.Crash.resolve(n)
		if len(cuts) == 0 {
			// the write appended nothing: there is no crash point inside it
			x.e.Probe("crash-on-empty-append")
			model = append(model[:len(model):len(model)], c29Seg{text: txt, rec: n})
			break
		}
		for _, cut := range cuts {
			if err := os.WriteFile(x.file, full[:int(s0)+cut], 0600); err != nil {
				return x.failf(Outcome{Verdict: "inconclusive", Clause: "disk", Detail: err.Error()})
			}
			x.pairs++
			if cut > 0 {
				x.e.Fault("crash-torn-record")
				x.e.Probe("pairs-history-x-offset-torn-nonempty")
			} else {
				x.e.Fault("crash-before-first-byte")
			}
			if cut == n-1 {
				x.e.Probe("cut-only-last-byte-missing")
			}
			if len(txt) > 64*1024 {
				x.e.Probe("cut-inside-entry-over-64KiB")
			}
			x.ctx = append(x.ctx, fmt.Sprintf("session %d died during write %d with %d of %d bytes on disk", i, k, cut, n))
			m2 := append(model[:len(model):len(model)], c29Seg{text: txt, opt: true, torn: cut > 0, rec: cut})
			ok := x.steps(i+1, m2)
			if !ok {
				return false
			}
			x.ctx = x.ctx[:len(x.ctx)-1]
		}
		return true
	}
	return x.steps(i+1, model)
}

func (x *c29Run) parStep(i int, st c29Step, model []c29Seg) bool {
	np := len(st.Par)
	hs := make([]*history.History, np)
	for s := range st.Par {
		if hs[s] = x.open(model, fmt.Sprintf("step %d concurrent session %d load", i, s)); hs[s] == nil {
			return false
		}
	}
	seg := c29Seg{par: make([][]string, np)}
	for s, cmds := range st.Par {
		for _, c := range cmds {
			seg.par[s] = append(seg.par[s], x.text(c))
		}
	}
	var wg sync.WaitGroup
	var order []int
	var werr error
	for s := range st.Par {
		s := s
		wg.Add(1)
		simrt.Go(func() {
			defer wg.Done()
			for _, t := range seg.par[s] {
				if _, err := hs[s].Write(t); err != nil && werr == nil {
					werr = err
				}
				order = append(order, s)
			}
		})
	}
	wg.Wait()
	simrt.Yield("c29-join")
	if werr != nil {
		return x.failf(Outcome{Verdict: "inconclusive", Clause: "write-error", Detail: fmt.Sprintf("%s: Write returned %v", x.where(fmt.Sprintf("step %d", i)), werr)})
	}
	cur := make([]int, np)
	changes := 0
	for k, s := range order {
		seg.flat = append(seg.flat, seg.par[s][cur[s]])
		cur[s]++
		if k > 0 && order[k-1] != s {
			changes++
		}
	}
	if changes >= np {
		x.e.Probe("concurrent-writes-interleaved")
	}
	return x.steps(i+1, append(model[:len(model):len(model)], seg))
}

func c29Valid(w *c29W) string {
	if len(w.Steps) == 0 {
		return "no steps"
	}
	chk := func(c c29Cmd) string {
		t := c.text()
		switch {
		case t == "":
			return "empty command"
		case strings.TrimSpace(t) != t:
			return "command with leading/trailing white space"
		case !utf8.ValidString(t):
			return "command is not valid UTF-8"
		}
		return ""
	}
	for _, st := range w.Steps {
		if len(st.Par) > 3 {
			return "more than 3 concurrent sessions"
		}
		if len(st.Par) == 0 && len(st.Cmds) == 0 {
			return "session without commands"
		}
		for _, c := range st.Cmds {
			if m := chk(c); m != "" {
				return m
			}
		}
		for _, p := range st.Par {
			for _, c := range p {
				if m := chk(c); m != "" {
					return m
				}
			}
		}
	}
	return ""
}

func runC29(c *Case, e *Env) Outcome {
	var w c29W
	if err := json.Unmarshal(c.W, &w); err != nil {
		return Outcome{Verdict: "inconclusive", Clause: "bad-case", Detail: err.Error()}
	}
	if m := c29Valid(&w); m != "" {
		return Outcome{Verdict: "inconclusive", Clause: "bad-case", Detail: m}
	}
	dir := filepath.Join(e.job.Tmp, "c29")
	os.RemoveAll(dir)
	if err := os.MkdirAll(dir, 0700); err != nil {
		return Outcome{Verdict: "inconclusive", Clause: "disk", Detail: err.Error()}
	}
	defer os.RemoveAll(dir)
	x := &c29Run{e: e, w: &w, file: filepath.Join(dir, "murex_history"), texts: map[c29Cmd]string{}}
	big := false
	for _, st := range w.Steps {
		for _, cm := range st.Cmds {
			big = big || cm.size() > 64*1024
		}
	}
	if big {
		e.Probe("history-with-entry-over-64KiB")
	}
	res := e.Bubble(c.Sched, func() { x.steps(0, nil) })
	if res.Panic != "" {
		return Outcome{Verdict: "panic", Clause: "panic", Detail: res.Panic}
	}
	if x.fail != nil {
		return *x.fail
	}
	return okOutcome()
}

// ---------------------------------------------------------------- shrink

func c29TrimCut(s string, n int) string {
	if n >= len(s) {
		return s
	}
	for n > 0 && !utf8.RuneStart(s[n]) {
		n--
	}
	return strings.TrimSpace(s[:n])
}

func shrinkC29(c *Case) []Case {
	var w c29W
	if json.Unmarshal(c.W, &w) != nil {
		return nil
	}
	var out []Case
	cp := func() c29W {
		var v c29W
		json.Unmarshal(c.W, &v)
		return v
	}
	emit := func(v c29W) {
		if c29Valid(&v) != "" {
			return
		}
		class := "clean"
		for _, st := range v.Steps {
			if st.Crash != nil && class == "clean" {
				class = "crash"
			}
			if len(st.Par) > 0 {
				class = "concurrent"
			}
		}
		out = append(out, Case{Class: class, W: mustJSON(v), Sched: c.Sched})
	}
	// 1. drop sessions: halves first, then single ones
	if n := len(w.Steps); n > 2 {
		v := cp()
		v.Steps = v.Steps[:n/2]
		emit(v)
		v = cp()
		v.Steps = v.Steps[n/2:]
		emit(v)
	}
	for i := range w.Steps {
		if len(w.Steps) > 1 {
			v := cp()
			v.Steps = append(v.Steps[:i:i], v.Steps[i+1:]...)
			emit(v)
		}
	}
	// 2. fewer crash points
	for i, st := range w.Steps {
		if st.Crash == nil {
			continue
		}
		v := cp()
		v.Steps[i].Crash = nil
		emit(v)
		cuts := st.Crash.Cuts
		if st.Crash.All {
			for _, cand := range [][]int{{-1}, {1}, {0}, {-2}, {0, -1, 1, 7, 20, 33, 45, 52, 60, 100, 1000, 5000, 30000, 70000, 150000, -2, -3, -10, -30}} {
				v := cp()
				v.Steps[i].Crash = &c29Crash{Cuts: cand}
				emit(v)
			}
			continue
		}
		if len(cuts) > 1 {
			v := cp()
			v.Steps[i].Crash.Cuts = append([]int(nil), cuts[:len(cuts)/2]...)
			emit(v)
			v = cp()
			v.Steps[i].Crash.Cuts = append([]int(nil), cuts[len(cuts)/2:]...)
			emit(v)
			if len(cuts) <= 24 {
				for _, k := range cuts {
					v := cp()
					v.Steps[i].Crash.Cuts = []int{k}
					emit(v)
				}
			}
		} else if len(cuts) == 1 && cuts[0] != -1 && cuts[0] != 1 && cuts[0] != 0 {
			for _, k := range []int{-1, 1, 0} {
				v := cp()
				v.Steps[i].Crash.Cuts = []int{k}
				emit(v)
			}
		}
	}
	// 3. concurrent group: drop a session of it, or make it one plain session
	for i, st := range w.Steps {
		if len(st.Par) == 0 {
			continue
		}
		for s := range st.Par {
			v := cp()
			v.Steps[i].Par = append(v.Steps[i].Par[:s:s], v.Steps[i].Par[s+1:]...)
			if len(v.Steps[i].Par) == 1 {
				v.Steps[i].Cmds, v.Steps[i].Par = v.Steps[i].Par[0], nil
			}
			emit(v)
		}
		for s := range st.Par {
			for k := range st.Par[s] {
				if len(st.Par[s]) > 1 {
					v := cp()
					v.Steps[i].Par[s] = append(v.Steps[i].Par[s][:k:k], v.Steps[i].Par[s][k+1:]...)
					emit(v)
				}
			}
		}
	}
	// 4. drop commands
	for i, st := range w.Steps {
		if n := len(st.Cmds); n > 3 {
			v := cp()
			v.Steps[i].Cmds = v.Steps[i].Cmds[n/2:]
			emit(v)
			if st.Crash == nil {
				v = cp()
				v.Steps[i].Cmds = v.Steps[i].Cmds[:n/2]
				emit(v)
			}
		}
		for k := range st.Cmds {
			if len(st.Cmds) > 1 {
				v := cp()
				v.Steps[i].Cmds = append(v.Steps[i].Cmds[:k:k], v.Steps[i].Cmds[k+1:]...)
				emit(v)
			}
		}
	}
	// 5. shorten commands
	idx := 0
	short := func(get func(v *c29W) *c29Cmd) {
		idx++
		cur := *get(&w)
		name := fmt.Sprintf("c%d", idx)
		if cur.size() > len(name) {
			v := cp()
			*get(&v) = c29Cmd{P: name}
			emit(v)
		}
		if cur.N > 0 {
			last := -1
			for _, n := range []int{0, cur.N / 2, cur.N - cur.N/4, cur.N - cur.N/8, cur.N - cur.N/16, cur.N - cur.N/32, cur.N - cur.N/64, cur.N - cur.N/256, cur.N - cur.N/1024, cur.N - 1} {
				if n < cur.N && n != last {
					last = n
					v := cp()
					get(&v).N = n
					if n == 0 {
						get(&v).Fill = ""
					}
					emit(v)
				}
			}
			if len(cur.Fill) > 1 && cur.Fill != "a" {
				v := cp()
				get(&v).Fill = "a"
				get(&v).N = cur.N * len(cur.Fill)
				emit(v)
			}
		}
		if cur.S != "" && cur.P != "" {
			v := cp()
			get(&v).S = ""
			emit(v)
		}
		if len(cur.P) > 2 {
			if p := c29TrimCut(cur.P, len(cur.P)/2); p != "" && p != cur.P {
				v := cp()
				get(&v).P = p
				emit(v)
			}
		}
	}
	for i, st := range w.Steps {
		for k := range st.Cmds {
			i, k := i, k
			short(func(v *c29W) *c29Cmd { return &v.Steps[i].Cmds[k] })
		}
		for s := range st.Par {
			for k := range st.Par[s] {
				i, s, k := i, s, k
				short(func(v *c29W) *c29Cmd { return &v.Steps[i].Par[s][k] })
			}
		}
	}
	if c.Sched.Strategy != "rr" {
		v := Case{Class: c.Class, W: c.W, Sched: c.Sched}
		v.Sched.Strategy = "rr"
		v.Sched.Decisions = nil
		out = append(out, v)
	}
	return out
}
