package h

// C32: running murex code causes no data races. The worker is built with -race
// and simrt hides the scheduler's own happens-before edges (DESIGN.md §2.7), so
// ThreadSanitizer judges murex's synchronisation alone on every seeded schedule.
// A report ends the worker (GORACE halt_on_error) and the driver turns it into a
// `panic` verdict whose clause is the pair of racing murex frames.
//
// Harness discipline: nothing here may be shared between tasks through plain
// memory, otherwise the harness itself would be reported. Results are written
// through //go:norace helpers.

import (
	"encoding/json"
	"fmt"
	"strings"
	"time"

	"github.com/lmorg/murex/builtins/pipes/streams"
	"github.com/lmorg/murex/lang"
	"github.com/lmorg/murex/lang/pipes"
	"github.com/lmorg/murex/utils/simrt"
)

type c32W struct {
	Kind  string   `json:"kind"` // program | streams | pipes | jobs
	Progs []string `json:"progs,omitempty"` // program: one block per root task
	Ops   [][]int  `json:"ops,omitempty"`   // components: op codes per task
	Limit int      `json:"limit"`
}

func init() {
	register(&Harness{Name: "c32", Gen: genC32, Run: runC32, Shrink: shrinkC32, Init: initMurex})
	propHarness["C32"] = "c32"
}

func c32Snippet(r *Rand, pfx string) string {
	n := 2 + r.Intn(6)
	switch r.Intn(20) {
	case 16: // a scope's config table written and read by two stages of one pipeline
		return fmt.Sprintf("function %scg { config set proc strict-vars false -> config get proc strict-arrays; config get proc strict-vars | config set proc strict-arrays true }; %scg; %scg | %scg", pfx, pfx, pfx, pfx)
	case 17: // config set racing with commands that read their settings from the same scope
		return fmt.Sprintf("function %sch { a [1..%d] -> foreach q { config set proc strict-vars false; out $q } | regexp s/1/one/ }; %sch", pfx, n, pfx)
	case 18: // two loops in one pipeline (distinct variables)
		return fmt.Sprintf("a [1..%d] -> foreach la { out \"a$la\" } -> foreach lb { out \"b$lb\" } -> count", n+2)
	case 19: // progress telemetry and tryerr read the pipe counters while the pipe is busy
		return fmt.Sprintf("tryerr { a [1..%d]; a [1..3] } -> foreach lt { out $lt } -> count", n+4)
	case 0:
		return fmt.Sprintf("out hello | regexp s/l/L/; a [1..%d] -> foreach x { out $x }", n)
	case 1:
		return fmt.Sprintf("function %sf { out $1 | regexp s/a/b/ }; %sf aaa -> regexp s/b/c/; %sf bab | %sf aca", pfx, pfx, pfx, pfx)
	case 2:
		return fmt.Sprintf("pipe %sp; bg { <%sp> -> regexp s/x/y/ }; out xxx -> <%sp>; !pipe %sp; out done", pfx, pfx, pfx, pfx)
	case 3:
		return fmt.Sprintf("a [1..%d] -> foreach --parallel %d x { out $x } -> msort", n+2, 1+r.Intn(4))
	case 4:
		return fmt.Sprintf("$GLOBAL.%scnt = \"0\"; function %sinc { $GLOBAL.%scnt = \"$1\"; out $%scnt }; %sinc a | %sinc b | %sinc c; out $%scnt", pfx, pfx, pfx, pfx, pfx, pfx, pfx, pfx)
	case 5:
		return fmt.Sprintf("v = %%{a: 1, b: {c: 2}}; $v.b.c = 3; out $v | regexp s/3/4/; a [1..%d] -> foreach i { $v.a = $i; out $v.a }", n)
	case 6:
		return fmt.Sprintf("function %scf { config set proc strict-vars false; out \"[$nope]\"; config get proc strict-vars }; %scf | %scf | %scf", pfx, pfx, pfx, pfx)
	case 7:
		return fmt.Sprintf("bg { sleep 2; out late }; bg { sleep 1; out mid }; out early; fid-list --jobs -> [JobID]")
	case 8:
		return fmt.Sprintf("function %sfl { args a %%{Flags: {--foo: str}}; out $a.Flags }; %sfl --foo 1 | %sfl --foo 2 | %sfl --bar", pfx, pfx, pfx, pfx)
	case 9:
		return fmt.Sprintf("a [1..%d] -> foreach x { if { $x == 2 } then { break foreach }; out $x }; function %sr { return 3 }; %sr || out failed", n, pfx, pfx)
	case 10:
		return fmt.Sprintf("bg { a [1..%d] -> foreach y { $GLOBAL.%sg = $y } }; a [1..%d] -> foreach z { out $%sg }", n, pfx, n, pfx)
	case 11:
		return fmt.Sprintf("pipe %sq; bg { a [1..%d] -> <%sq> }; bg { <%sq> -> count }; sleep 1; !pipe %sq", pfx, n, pfx, pfx, pfx)
	case 12:
		return fmt.Sprintf("function %sm { x = $1; out $x -> set y; out \"$x$y\" }; %sm 1 | %sm 2; bg { %sm 3 }; %sm 4", pfx, pfx, pfx, pfx, pfx)
	case 13:
		return fmt.Sprintf("alias %sal=out aliased; %sal x | %sal y; bg { %sal z }; !alias %sal", pfx, pfx, pfx, pfx, pfx)
	case 14:
		return fmt.Sprintf("try { out t1 | regexp s/t/T/; a [1..%d] -> foreach --parallel 2 k { out $k } }; trypipe { out p | regexp s/p/q/ }", n)
	default:
		return fmt.Sprintf("tout json {\"a\":[1,2,3]} -> [a] -> foreach e { out $e } | msort | mtac; ja [1..%d] -> format yaml -> format json -> [0]", n)
	}
}

func genC32(r *Rand, tier string) Case {
	var w c32W
	switch k := r.Intn(10); {
	case k < 6:
		w.Kind = "program"
		nroots := 1 + r.Intn(3)
		for i := 0; i < nroots; i++ {
			var parts []string
			for s := 0; s < 1+r.Intn(3); s++ {
				parts = append(parts, c32Snippet(r, fmt.Sprintf("c%d%c", r.Intn(900)+100, 'a'+byte(i))))
			}
			w.Progs = append(w.Progs, strings.Join(parts, "\n"))
		}
	case k < 8:
		w.Kind = "streams"
	case k < 9:
		w.Kind = "pipes"
	default:
		w.Kind = "jobs"
	}
	if w.Kind != "program" {
		for t := 0; t < 2+r.Intn(3); t++ {
			var ops []int
			for i := 0; i < 3+r.Intn(10); i++ {
				ops = append(ops, r.Intn(1000))
			}
			w.Ops = append(w.Ops, ops)
		}
	}
	w.Limit = []int{0, 0, 1, 16}[r.Intn(4)]
	sc := interpSched(r, 2500)
	if r.Intn(3) == 0 {
		sc.JumpProb = 0.005
	}
	return Case{Class: w.Kind, W: mustJSON(w), Sched: sc}
}

type c32Res struct {
	crash string
}

//go:norace
func (r *c32Res) set(s string) {
	if r.crash == "" {
		r.crash = s
	}
}

//go:norace
func (r *c32Res) get() string { return r.crash }

//go:norace
func c32RunFork(f *lang.Fork, src string, res *c32Res, done chan struct{}) {
	out := runFork(f, src)
	if ct := crashText(out.Out + out.Err + out.ExecErr); ct != "" {
		res.set(ct)
	}
	done <- struct{}{}
}

func runC32(c *Case, e *Env) Outcome {
	var w c32W
	if err := json.Unmarshal(c.W, &w); err != nil {
		return Outcome{Verdict: "inconclusive", Clause: "bad-case", Detail: err.Error()}
	}
	res := &c32Res{}
	var sr SimResult
	switch w.Kind {
	case "program":
		// The knob is written while no task of the case exists: a `bg` job can outlive the root task, and a
		// restore at the end of the root task raced with such a job reading the limit in NewStdin (the
		// harness's own write, reported by the detector in the thorough tier). The forks' capture streams
		// are unlimited whatever the knob says (lang/fork.go), so it does not matter that they are created
		// after it is set.
		save := streams.DefaultMaxBufferSize
		if w.Limit > 0 {
			streams.DefaultMaxBufferSize = w.Limit
		}
		defer func() { streams.DefaultMaxBufferSize = save }()
		sr = e.Bubble(c.Sched, func() {
			forks := make([]*lang.Fork, len(w.Progs))
			for i := range w.Progs {
				forks[i] = newFork(fmt.Sprintf("murex/mxsim-race%d", i))
			}
			done := make(chan struct{}, len(w.Progs))
			for i := range w.Progs {
				f, src := forks[i], w.Progs[i]
				simrt.Go(func() { c32RunFork(f, src, res, done) })
			}
			for range w.Progs {
				<-done
			}
			time.Sleep(5 * time.Second)
		})
	case "streams":
		sr = e.Bubble(c.Sched, func() { c32Streams(&w) })
	case "pipes":
		sr = e.Bubble(c.Sched, func() { c32Pipes(&w) })
	case "jobs":
		sr = e.Bubble(c.Sched, func() { c32Jobs(&w) })
	}
	if sr.Panic != "" {
		return Outcome{Verdict: "panic", Clause: "panic", Detail: sr.Panic}
	}
	if ct := res.get(); ct != "" {
		return violation("internal-panic", "programs:\n%s\nreported: %s", strings.Join(w.Progs, "\n# ---- next root\n"), ct)
	}
	return okOutcome()
}

// ---- component workloads: every task touches murex objects and its own locals only

func c32Streams(w *c32W) {
	if w.Limit > 0 {
		save := streams.DefaultMaxBufferSize
		streams.DefaultMaxBufferSize = w.Limit
		defer func() { streams.DefaultMaxBufferSize = save }()
	}
	p := streams.NewStdin()
	tee, sec := streams.NewTee(p)
	nWriters := len(w.Ops) - 1
	for i := 0; i < nWriters; i++ {
		p.Open()
	}
	done := make(chan struct{}, len(w.Ops)+1)
	for t := 0; t < nWriters; t++ {
		ops := w.Ops[t]
		simrt.Go(func() {
			// declare a type first: a reader waiting in GetDataType while the writers are held back by a
			// full buffer is a legitimate standstill of this workload, not something to report
			p.SetDataType("str")
			for _, op := range ops {
				switch op % 6 {
				case 0:
					p.SetDataType([]string{"json", "str", "", "null"}[op/6%4])
				case 1:
					tee.Write(make([]byte, 1+op%9))
				case 2:
					p.Stats()
				case 3:
					p.Writeln([]byte("x"))
				case 4:
					tee.SetDataType("yaml")
				default:
					p.Write(make([]byte, 1+op%40))
				}
			}
			p.Close()
			done <- struct{}{}
		})
	}
	ops := w.Ops[nWriters]
	simrt.Go(func() {
		buf := make([]byte, 7)
		for _, op := range ops {
			switch op % 4 {
			case 0:
				p.GetDataType()
			case 1:
				p.Read(buf)
			case 2:
				p.Stats()
			default:
				sec.Stats()
			}
		}
		p.ReadAll()
		sec.ReadAll()
		done <- struct{}{}
	})
	if len(ops) > 0 && ops[0]%5 == 0 {
		simrt.Go(func() {
			simrt.WaitStep(ops[0] % 60)
			p.ForceClose()
			done <- struct{}{}
		})
		<-done
	}
	for range w.Ops {
		<-done
	}
}

func c32Pipes(w *c32W) {
	n := pipes.NewNamed()
	names := []string{"a", "b", "c"}
	done := make(chan struct{}, len(w.Ops))
	for t := range w.Ops {
		ops := w.Ops[t]
		simrt.Go(func() {
			for _, op := range ops {
				name := names[op/8%3]
				switch op % 8 {
				case 0, 1:
					n.CreatePipe(name, "std", "")
				case 2:
					n.Close(name)
				case 3:
					n.Delete(name)
				case 4:
					if io, err := n.Get(name); err == nil {
						io.Write([]byte("x"))
					}
				case 5:
					n.Dump()
				case 6:
					time.Sleep(time.Duration(op%2500) * time.Millisecond)
				default:
					n.Dump()
				}
			}
			done <- struct{}{}
		})
	}
	for range w.Ops {
		<-done
	}
	time.Sleep(6 * time.Second)
}

func c32Jobs(w *c32W) {
	j := lang.NewJobs()
	done := make(chan struct{}, len(w.Ops))
	for t := range w.Ops {
		ops := w.Ops[t]
		simrt.Go(func() {
			var mine []*lang.Process
			for _, op := range ops {
				switch op % 6 {
				case 0, 1:
					p := new(lang.Process)
					mine = append(mine, p)
					j.Add(p)
				case 2:
					if len(mine) > 0 {
						mine[op/6%len(mine)].SetTerminatedState(true)
					}
				case 3:
					j.GarbageCollect()
				case 4:
					j.Get(op / 6 % 9)
					j.GetLatest()
				default:
					j.List()
				}
			}
			done <- struct{}{}
		})
	}
	for range w.Ops {
		<-done
	}
}

func shrinkC32(c *Case) []Case {
	var w c32W
	json.Unmarshal(c.W, &w)
	var out []Case
	emit := func(v c32W, sc Sched) { out = append(out, Case{Class: c.Class, W: mustJSON(v), Sched: sc}) }
	for i := range w.Progs {
		if len(w.Progs) > 1 {
			v := w
			v.Progs = append(append([]string{}, w.Progs[:i]...), w.Progs[i+1:]...)
			emit(v, c.Sched)
		}
		lines := strings.Split(w.Progs[i], "\n")
		for k := range lines {
			if len(lines) > 1 {
				v := w
				v.Progs = append([]string{}, w.Progs...)
				v.Progs[i] = strings.Join(append(append([]string{}, lines[:k]...), lines[k+1:]...), "\n")
				emit(v, c.Sched)
			}
		}
		for k, ln := range lines { // drop one `;` separated statement of a line
			parts := strings.Split(ln, "; ")
			for q := range parts {
				if len(parts) > 1 {
					nl := append([]string{}, lines...)
					nl[k] = strings.Join(append(append([]string{}, parts[:q]...), parts[q+1:]...), "; ")
					v := w
					v.Progs = append([]string{}, w.Progs...)
					v.Progs[i] = strings.Join(nl, "\n")
					emit(v, c.Sched)
				}
			}
		}
	}
	for t := range w.Ops {
		if len(w.Ops) > 2 {
			v := w
			v.Ops = append(append([][]int{}, w.Ops[:t]...), w.Ops[t+1:]...)
			emit(v, c.Sched)
		}
		if n := len(w.Ops[t]); n > 1 {
			v := w
			v.Ops = append([][]int{}, w.Ops...)
			v.Ops[t] = w.Ops[t][:n/2]
			emit(v, c.Sched)
			v = w
			v.Ops = append([][]int{}, w.Ops...)
			v.Ops[t] = w.Ops[t][n/2:]
			emit(v, c.Sched)
		}
	}
	if w.Limit != 0 {
		v := w
		v.Limit = 0
		emit(v, c.Sched)
	}
	if c.Sched.JumpProb != 0 {
		sc := c.Sched
		sc.JumpProb = 0
		emit(w, sc)
	}
	for _, st := range []string{"rr", "pb0"} {
		if c.Sched.Strategy != st {
			sc := c.Sched
			sc.Strategy = st
			emit(w, sc)
		}
	}
	return out
}
