package h

// C19: murex code never crashes or hangs the shell. Adversarial programs over
// the builtin vocabulary. What the simulator adds to generation: a caller left
// blocked is an exact `deadlock` verdict, a panic in ANY goroutine (also one that
// outlives the program) kills the worker and is attributed to the case, and the
// fake clock runs on for 5 simulated seconds after the program returned so that
// delayed crashes (grace-period goroutines) surface inside the case.

import (
	"encoding/json"
	"fmt"
	"os"
	"path/filepath"
	"strings"
	"time"
)

type c19W struct {
	Stmts []string `json:"stmts"`
	Limit int      `json:"limit"`
}

var c19Stderr *os.File
var c19StderrPos int64

func init() {
	register(&Harness{Name: "c19", Gen: genC19, Run: runC19, Shrink: shrinkC19, Init: initC19})
	propHarness["C19"] = "c19"
}

func initC19(j *Job) {
	// no external command can be found: a child that needs murex to feed or drain it would stall the
	// simulator (DESIGN.md §7), and C19's vocabulary is builtins only
	os.Setenv("PATH", j.Tmp)
	initMurex(j)
	// crash.Handler reports on os.Stderr: give it a file this worker can read back
	f, err := os.Create(filepath.Join(j.Tmp, "murex-stderr.txt"))
	if err == nil {
		c19Stderr = f
		os.Stderr = f
	}
}

func (g *c19gen) num() string {
	switch g.r.Intn(8) {
	case 0:
		return fmt.Sprint(-1 - g.r.Intn(30))
	case 1:
		return fmt.Sprint(g.r.Intn(4))
	case 2:
		return fmt.Sprint(3 + g.r.Intn(30))
	case 3:
		return g.r.Pick([]string{"-0", "1.5", "1e3", "abc", "''", "99999999999999999999", "0x10", "-", "--", "+1", "$nope", "null"})
	case 4:
		return fmt.Sprint(-g.r.Intn(5))
	default:
		return fmt.Sprint(g.r.Intn(8))
	}
}

type c19gen struct {
	r *Rand
	n int
}

func (g *c19gen) doc() string {
	return g.r.Pick([]string{
		"tout json [1,2,3]", "tout json []", "tout json {\"a\":1,\"b\":[1,2],\"c\":{\"d\":null}}", "tout json {}", "tout json null", "tout json 5",
		"tout json not-json", "tout json '[1,2'", "tout yaml '- a\n- b'", "tout yaml 'a: 1\nb: [1,2]'", "tout jsonl '[1,2]\n[3]'", "tout jsonl ''",
		"tout csv 'a,b\n1,2'", "tout str abc", "out abc", "out ''", "a [1..5]", "ja [1..3]", "tout * raw", "tout int 5", "tout bool true", "tout toml 'a = 1'",
		"tout nosuchtype x", "tout json [[1,2],[3]]", "tout json [\"x\",\"\",\"y\"]", "tout generic 'a\tb  c'",
	})
}

func (g *c19gen) stmt() string {
	g.n++
	n := g.n
	switch g.r.Intn(40) {
	case 0:
		return fmt.Sprintf("%s -> [%s]", g.doc(), g.num())
	case 1:
		return fmt.Sprintf("%s -> [%s %s %s]", g.doc(), g.num(), g.num(), g.num())
	case 2:
		return fmt.Sprintf("%s -> ![%s]", g.doc(), g.num())
	case 3:
		return fmt.Sprintf("%s -> [[/%s]]", g.doc(), g.r.Pick([]string{g.num(), "a", "b/" + g.num(), "c/d", "c/d/e", "", "/", "//", "b/-1", "zz/1"}))
	case 4:
		return fmt.Sprintf("%s -> [%s..%s]%s", g.doc(), g.r.Pick([]string{"", g.num()}), g.r.Pick([]string{"", g.num()}), g.r.Pick([]string{"", "e", "8", "n", "r", "x"}))
	case 5:
		return fmt.Sprintf("%s -> [%s]", g.doc(), g.r.Pick([]string{"a", "b", "c", "zz", "", "a b", "..", ".. ..", "1..2..3", "$nope"}))
	case 6: // args with undeclared / malformed flags
		call := g.r.Pick([]string{"--bar", "--foo", "--foo 1", "--foo 1 --bar", "-x", "", "-- --foo", "--num abc", "--num 3", "--alias 1"})
		table := g.r.Pick([]string{"%{Flags:{--foo:str}}", "%{Flags:{--foo:str,--num:int,--alias:--foo}}", "%{AllowAdditional:true}", "%{}", "%{Flags:{--foo:bad}}", "%{Flags:5}", "notjson", "%{Flags:{--a:--a}}"})
		return fmt.Sprintf("function ta%d { args a %s; out $a }\nta%d %s", n, table, n, call)
	case 7: // typed parameters with arguments that do not convert
		sig := g.r.Pick([]string{"(x: int)", "(x: num, y: bool)", "(x: str, !y: int [5])", "(x: int \"desc\")", "(x: nosuch)", "(x)", "(x: int", "()", "(x: int [abc])"})
		// always at least two arguments: a missing mandatory parameter makes murex prompt on the
		// terminal (readline), which is stubbed away in the simulator
		return fmt.Sprintf("function tp%d %s { out \"$x\" }\ntp%d %s", n, sig, n, g.r.Pick([]string{"abc def", "1 2", "1 2 3", "'' ''", "true yes", "1.5 maybe", "-1 0 extra"}))
	case 8: // named pipes in any order
		// no reads from a named pipe: waiting on a pipe that nobody closes is what a shell is supposed to do
		ops := []string{"pipe np%d", "!pipe np%d", "!pipe np%d", "out x -> <np%d>", "pipe np%d --file /nonexistent/dir/f", "pipe --bad np%d", "!pipe", "pipe"}
		var s []string
		for k := 0; k < 1+g.r.Intn(4); k++ {
			op := g.r.Pick(ops)
			if strings.Contains(op, "%d") {
				op = fmt.Sprintf(op, n)
			}
			s = append(s, op)
		}
		return strings.Join(s, "\n")
	case 9:
		return g.r.Pick([]string{"break", "break nosuch", "continue", "continue nosuch", "return abc", "return -1", "return 999", "return", "break if", "break foreach"})
	case 10:
		return g.r.Pick([]string{"if {} then {}", "if { } { }", "if", "if { true }", "if { true } then", "foreach x {}", "a [1..3] -> foreach {}", "a [1..3] -> foreach", "try {}", "trypipe", "while { false } {}", "while", "switch {}", "switch { case }", "catch {}", "!if { true } then { out x }", "unsafe {}"})
	case 11:
		return fmt.Sprintf("a [1..4] -> foreach %s { out $v }", g.r.Pick([]string{"--parallel v", "--parallel 0 v", "--parallel -1 v", "--parallel abc v", "--step 0 v", "--step -2 v", "--step 2 v", "--jmap v", "--bad v", "v w x"}))
	case 12:
		return g.r.Pick([]string{"a [z..a]", "a [1..]", "a [", "a []", "a [..]", "a [1..2..3]", "a [1..99999999999999999999]", "a [-3..3]", "a [a..c][1..2]", "ja [5..1]", "a [1,2", "ta json [1..3]", "ta nosuch [1..3]", "a", "a [01..003]"})
	case 13:
		return fmt.Sprintf("%s -> format %s", g.doc(), g.r.Pick([]string{"json", "yaml", "toml", "jsonl", "csv", "xml", "nosuch", "", "str", "*"}))
	case 14:
		return fmt.Sprintf("%s -> cast %s", g.doc(), g.r.Pick([]string{"json", "", "nosuch", "int", "null"}))
	case 15:
		return fmt.Sprintf("%s -> regexp %s", g.doc(), g.r.Pick([]string{"s/(/x/", "m/[/", "f/", "s/a/b/c/d", "", "x/a/", "s", "m/(a)(b)?/", "f/(a)/", "s/a/$9/"}))
	case 16:
		return fmt.Sprintf("%s -> %s", g.doc(), g.r.Pick([]string{"match", "!match", "left -1", "right 999", "left abc", "prefix", "suffix x y", "msort -x", "mtac", "count --bad", "count", "len", "jsplit (", "jsplit", "mjoin", "mjoin ,", "2darray", "addheading", "map { out a }", "struct-keys -1", "struct-keys abc", "alter /a/b 5", "alter --merge / {}", "alter -x", "append", "prepend 1", "lang.ReadArray", "!regexp m/a/", "grep", "pretty", "pretty --bad", "sort", "tabulate", "tabulate --map --bad", "escape", "!escape", "eschtml", "!escurl", "esccli", "base64", "!base64", "gz", "!gz", "bz2", "!bz2", "round 0", "round abc", "round -1", "datetime --bad", "f +nosuch", "g *", "rx (", "set x", "set int x", "eval", "expr", "expr 1+"}))
	case 17:
		return g.r.Pick([]string{"out (1/0)", "out (1+)", "out (+)", "out %[1,2", "out %{a:}", "out %{a}", "out $nope[5]", "out $nope.a.b", "out @nope", "out @{ }", "out ${", "out ${ }", "out $(nope)", "x = ", "x == 1", "= 1", "1 = 1", "$x = 1", "out (1 > a)", "out (null ?? )", "out (a ?: )", "%[1..]", "out $[", "out ~nouser9", "out (\"a\" * 2)", "out (3 % 0)", "x = %[1,2]; out $x[9]", "x = %{a:1}; out $x.b.c", "x = %[1,2]; out @x[5]", "x = %[1,2]; $x[7] = 1", "x = 5; $x.a = 1", "x = %{a:1}; $x.a.b.c = 2", "out (1 =~ \"(\")", "out (\"a\" =~ 5)"})
	case 18:
		return g.r.Pick([]string{"config set", "config set foo", "config set foo bar baz", "config get", "config get a b", "config default a b", "config define", "config define a b {}", "config define a b notjson", "config eval", "config eval shell prompt", "config set proc strict-vars maybe", "config --bad", "!config a b"})
	case 19:
		return g.r.Pick([]string{"runmode bad", "runmode try", "runmode try function x", "runmode", "fid-list --bad", "fid-kill 99999", "fid-kill abc", "fid-kill", "fg 99", "fg abc", "fg %9", "bg 99", "bg %1", "jobs", "fid-list --jobs -> [9]", "exitnum x", "version --bad", "murex-parser {", "murex-parser", "builtins -> [9999]", "type", "which", "args", "params", "os x", "cpuarch x", "cpucount x"})
	case 20:
		return g.r.Pick([]string{"$GLOBAL. = 1", "!set", "!global", "global", "global x", "set", "export", "export =", "!export", "unset", "!set nope", "set x=", "set bool x=maybe", "set int x=abc", "global int g=abc", "$ENV. = 1", "$GLOBAL.a.b = 1", "$MOD.x = 1", "$nope.x = 1", "let x = 1 +", "let", "x++", "x--", "nope += 1", "x = 1; x += abc", "x = abc; x -= 1", "x = %[1]; x <~ 5", "x <~ %{a:1}"})
	case 21:
		return g.r.Pick([]string{"function", "function f", "function f {", "function f (", "!function nosuch", "private", "private p {}", "!private nosuch", "alias", "alias a", "alias a=", "!alias nosuch", "method", "method define", "method define x notjson", "autocomplete", "autocomplete get nosuch", "autocomplete set x notjson", "autocomplete set x %[{bad:1}]", "event", "event nosuch x=y {}", "!event nosuch x", "test", "test define", "test run nosuch", "test unit", "test unit function nosuch %{}", "!test", "cast", "tout", "tout json", "ttyfd x", "source nosuch", "source", "murex-package bad", "openagent", "openagent get nosuch", "key-code", "signal", "signal bad", "fexec", "fexec builtin", "fexec nosuch x", "fexec function nosuch", "exec", "getfile", "post", "get"})
	case 22: // recursion and deep nesting
		return g.r.Pick([]string{
			fmt.Sprintf("function rc%d { if { $1 > 0 } then { rc%d ($1 - 1) } else { out bottom } }\nrc%d 25", n, n, n),
			"out ${out ${out ${out ${out deep}}}}",
			"try { try { try { mxnope } } }",
			"a [1..3] -> foreach x { a [1..3] -> foreach y { a [1..2] -> foreach z { out \"$x$y$z\" } } } -> count",
		})
	case 23:
		return fmt.Sprintf("%s -> foreach v { %s }", g.doc(), g.r.Pick([]string{"break foreach", "continue foreach", "return 3", "out $v -> [9]", "$v -> [0]", "nosuchcmd9 $v", "out $v.x", "break", "err $v", "try { mxnope }"}))
	case 24:
		return g.r.Pick([]string{"mxnope", "mxnope -> mxnope", "out x -> mxnope", "mxnope -> out", "-> out", "out x ->", "out x |", "| out x", "out x => out", "out x ?  out", "out x &&", "|| out x", "out x ;;; out y", "out <nosuchpipe> x", "out <err> <err> x", "out <!out> <err> x", "err <!out> x", "out <null> <!null> x", "out x |> /nonexistent/dir/file", "out x >> /nonexistent/dir/file", "out x |>", "out x >>", "<nosuch>", "<null> -> out", "out x -> <null>"})
	case 25:
		return g.r.Pick([]string{"sleep abc", "sleep -1", "sleep 0", "sleep", "time", "time {", "time { out x }", "time out x", "datetime", "datetime --in {bad} --out {bad}", "rand", "rand int 0", "rand int -5", "rand str -1", "rand nosuch", })
	case 26:
		return fmt.Sprintf("x = %s\nout $x[%s]\nout $x[[/%s]]\nout @x[%s..%s]", g.r.Pick([]string{"%[1,2,3]", "%{a:1}", "\"str\"", "5", "null", "%[]"}), g.num(), g.num(), g.num(), g.num())
	case 27:
		return fmt.Sprintf("%s -> set x\nout $x -> [%s]", g.doc(), g.num())
	case 28:
		return g.r.Pick([]string{"struct-keys", "tout json {\"a\":{\"b\":{\"c\":1}}} -> struct-keys 0", "tout json [1,[2,[3]]] -> struct-keys --separator '' 9", "tout json {\"a\":1} -> alter /a/b/c 1", "tout json [1,2] -> alter /9 1", "tout json [1,2] -> alter --sum / [3]", "tout json {\"a\":1} -> alter --merge /a {\"b\":2}", "tout json 5 -> alter / 6", "tout json [1] -> inject 5 x", "tout json [1] -> inject abc x", "tout json {\"a\":[1]} -> [[/a/0]] -> [[/x]]"})
	case 29:
		return g.r.Pick([]string{"tout json [3,1,2] -> msort -> [-4]", "tout json [1,2,3] -> mtac -> [[/-4]]", "tout json [1,2,3] -> [1..2] -> [5]", "tout json {\"a\":1} -> formap k v { out $k$v } -> [9]", "tout json [1] -> formap k v {}", "tout json [1,2,3] -> foreach --step 2 v { out $v -> [1] }", "ja [1..3] -> append 4 -> prepend 0 -> [-9]", "a [1..3] -> mjoin , -> jsplit , -> [7]", "tout json [\"a\",\"b\"] -> left 1 -> right 5 -> suffix x -> prefix y -> [-3]", "tout str 'a\nb' -> match a -> !match a -> [0]", "a [1..9] -> [2..-2]", "a [1..9] -> [-2..2]", "a [1..9] -> [#1..#99]8", "a [1..9] -> [b..y]r", "a [1..9] -> [b..y]s"})
	default:
		return fmt.Sprintf("%s -> [%s]", g.doc(), g.num())
	}
}

func genC19(r *Rand, tier string) Case {
	g := &c19gen{r: r, n: r.Intn(1000) * 10}
	var w c19W
	for i := 0; i < 1+r.Intn(4); i++ {
		w.Stmts = append(w.Stmts, g.stmt())
	}
	w.Limit = []int{0, 0, 0, 1, 16}[r.Intn(5)]
	for _, st := range w.Stmts {
		if strings.Contains(st, "pipe ") {
			// writing into a named pipe that nobody reads waits for a reader once the pipe is full: that is
			// what a pipe does, not a hang of the shell. With the production limit the generated programs
			// never fill one; with the 1-byte knob two `out x -> <pipe>` do (thorough tier, 3 of 80000 cases)
			w.Limit = 0
		}
	}
	sc := interpSched(r, 800)
	if r.Intn(4) == 0 {
		sc.JumpProb = 0.01
	}
	return Case{Class: "adversarial", W: mustJSON(w), Sched: sc}
}

func c19NewStderr() string {
	if c19Stderr == nil {
		return ""
	}
	st, err := c19Stderr.Stat()
	if err != nil || st.Size() <= c19StderrPos {
		return ""
	}
	b := make([]byte, st.Size()-c19StderrPos)
	n, _ := c19Stderr.ReadAt(b, c19StderrPos)
	c19StderrPos = st.Size()
	return string(b[:n])
}

func runC19(c *Case, e *Env) Outcome {
	var w c19W
	if err := json.Unmarshal(c.W, &w); err != nil {
		return Outcome{Verdict: "inconclusive", Clause: "bad-case", Detail: err.Error()}
	}
	src := strings.Join(w.Stmts, "\n")
	c19NewStderr()
	restore := setPipeLimit(w.Limit)
	got, res := e.runProgram(c.Sched, src, 5*time.Second)
	restore()
	if res.Panic != "" {
		return Outcome{Verdict: "panic", Clause: "panic", Detail: "program:\n" + src + "\n" + res.Panic}
	}
	real := c19NewStderr()
	if ct := crashText(got.Out + got.Err + got.ExecErr + real); ct != "" {
		kind := "panic-caught"
		if strings.Contains(real, "Murex has crashed") {
			kind = "murex-has-crashed"
		}
		return violation(kind+"["+c19Where(got.Out+got.Err+got.ExecErr+real)+"]", "program:\n%s\nreported: %s", src, ct)
	}
	if !got.Returned {
		return violation("did-not-return", "program:\n%s\nExecute did not return", src)
	}
	return okOutcome()
}

// c19Where: a short stable name of where the internal panic came from (so that different crashes are different clauses)
func c19Where(s string) string {
	for _, pat := range []string{"index out of range", "nil pointer", "slice bounds", "nil map", "divide by zero", "interface conversion", "negative"} {
		if strings.Contains(s, pat) {
			i := strings.Index(s, "function: github.com/lmorg/murex/")
			fn := ""
			if i >= 0 {
				rest := s[i+len("function: github.com/lmorg/murex/"):]
				if j := strings.IndexAny(rest, "(\n"); j > 0 {
					fn = "@" + rest[:j]
				}
			}
			return strings.ReplaceAll(pat, " ", "-") + fn
		}
	}
	return "other"
}

func shrinkC19(c *Case) []Case {
	var w c19W
	json.Unmarshal(c.W, &w)
	var out []Case
	emit := func(v c19W, sc Sched) { out = append(out, Case{Class: c.Class, W: mustJSON(v), Sched: sc}) }
	for i := range w.Stmts {
		if len(w.Stmts) > 1 {
			v := w
			v.Stmts = append(append([]string{}, w.Stmts[:i]...), w.Stmts[i+1:]...)
			emit(v, c.Sched)
		}
	}
	for i, s := range w.Stmts { // multi-line statements: drop single lines
		lines := strings.Split(s, "\n")
		for k := range lines {
			if len(lines) > 1 {
				v := w
				v.Stmts = append([]string{}, w.Stmts...)
				v.Stmts[i] = strings.Join(append(append([]string{}, lines[:k]...), lines[k+1:]...), "\n")
				emit(v, c.Sched)
			}
		}
	}
	if w.Limit != 0 {
		v := w
		v.Limit = 0
		emit(v, c.Sched)
	}
	if c.Sched.JumpProb != 0 {
		sc := c.Sched
		sc.JumpProb = 0
		emit(w, sc)
	}
	for _, st := range []string{"rr", "pb0"} {
		if c.Sched.Strategy != st {
			sc := c.Sched
			sc.Strategy = st
			emit(w, sc)
		}
	}
	return out
}
