package h

// C01: pipes deliver every byte exactly once, in order (streams.Stdin, Tee).

import (
	"encoding/json"
	"fmt"
	"io"

	"github.com/lmorg/murex/builtins/pipes/streams"
	"github.com/lmorg/murex/lang/stdio"
	"github.com/lmorg/murex/utils/simrt"
)

type c01Reader struct {
	Kind   string `json:"kind"` // read | readall | read+readall | writeto | readline
	Buf    int    `json:"buf"`
	Switch int    `json:"switch,omitempty"` // read+readall: number of Reads before the ReadAll
}

type c01W struct {
	Max      int         `json:"max"`            // streams.DefaultMaxBufferSize knob
	Writers  [][]int     `json:"writers"`        // chunk sizes per writer
	Nested   []int       `json:"nested"`         // per writer: index of the chunk around which it opens/closes a nested dependent (-1 none)
	Readers  []c01Reader `json:"readers"`
	Monitor  int         `json:"monitor"`        // number of Stats() polls by a monitor task
	Tee      bool        `json:"tee,omitempty"`  // writers go through a Tee whose primary is the pipe
	RawSeed  uint64      `json:"raw,omitempty"`  // single writer: arbitrary bytes from this seed instead of tagged bytes
	CancelAt int         `json:"cancel_at"`      // F-cancel: ForceClose at this decision (-1: none)
	ViaFrom  bool        `json:"via_readfrom,omitempty"` // writer 0 feeds its chunks through ReadFrom(endpoint reader) (F-endpoint: short reads, (0,nil))
}

func init() {
	register(&Harness{Name: "c01", Gen: genC01, Run: runC01, Shrink: shrinkC01})
	propHarness["C01"] = "c01"
}

func genC01(r *Rand, tier string) Case {
	var w c01W
	w.Max = []int{1, 2, 7, 64, 4096, 1 << 20}[r.Intn(6)]
	nw := 1 + r.Intn(4)
	maxChunks := 12
	if tier == "thorough" {
		maxChunks = 40
	}
	big := r.Intn(40) == 0 // occasionally cross the production 1 MiB limit for real
	for i := 0; i < nw; i++ {
		var ch []int
		n := 1 + r.Intn(maxChunks)
		for k := 0; k < n; k++ {
			switch r.Intn(8) {
			case 0:
				ch = append(ch, 0)
			case 1:
				ch = append(ch, 1+r.Intn(300))
			case 2:
				if big {
					ch = append(ch, 200000+r.Intn(500000))
				} else {
					ch = append(ch, 1+r.Intn(5000))
				}
			default:
				ch = append(ch, 1+r.Intn(9))
			}
		}
		w.Writers = append(w.Writers, ch)
		if r.Intn(4) == 0 {
			w.Nested = append(w.Nested, r.Intn(n))
		} else {
			w.Nested = append(w.Nested, -1)
		}
	}
	if big {
		w.Max = 1 << 20
	}
	kind := []string{"read", "read", "read", "readall", "read+readall", "writeto", "readline"}[r.Intn(7)]
	rd := c01Reader{Kind: kind, Buf: 1 + r.Intn(17), Switch: 1 + r.Intn(3)}
	if r.Intn(4) == 0 {
		rd.Buf = 1 + r.Intn(5000)
	}
	if big && rd.Buf < 4096 {
		rd.Buf = 4096 + r.Intn(60000)
	}
	w.Readers = []c01Reader{rd}
	if kind == "read" && !big && r.Intn(3) == 0 {
		w.Readers = append(w.Readers, c01Reader{Kind: "read", Buf: 1 + r.Intn(17)})
	}
	// bound the work: every Read is a handful of decisions for the reader and for each writer waiting for
	// room, so 45 KB read one byte at a time through a 7-byte pipe is more than the step budget, which is
	// there to detect hangs (seen under VERIF_SEED=1: 405 k decisions of a legal run reported as a hang)
	total := 0
	for _, ch := range w.Writers {
		for _, n := range ch {
			total += n
		}
	}
	for i := range w.Readers {
		if min := total/6000 + 1; w.Readers[i].Buf < min {
			w.Readers[i].Buf = min
		}
	}
	w.Monitor = r.Intn(6)
	w.Tee = r.Intn(6) == 0
	if nw == 1 && r.Intn(2) == 0 {
		w.RawSeed = r.U64() | 1
		w.ViaFrom = r.Intn(3) == 0
	}
	w.CancelAt = -1
	class := "faultfree"
	if r.Intn(4) == 0 {
		class = "cancel"
		w.CancelAt = r.Intn(80)
		// keep indexes unambiguous so that gaps are distinguishable from wrap-around
		for i := range w.Writers {
			tot := 0
			for k := range w.Writers[i] {
				if tot+w.Writers[i][k] > 64 {
					w.Writers[i][k] = 0
				}
				tot += w.Writers[i][k]
			}
		}
		w.RawSeed = 0
		w.ViaFrom = false
	}
	if w.ViaFrom {
		class = "endpoint"
		w.Tee = false // ReadFrom is a method of the pipe, not of the Tee
	}
	if w.Readers[0].Kind == "readline" {
		// ReadLine is bufio.Scanner framing (64 KiB token limit): keep lines short, that limit is not C01's subject
		tot := 0
		for i := range w.Writers {
			for k := range w.Writers[i] {
				if w.Writers[i][k] > 3000 {
					w.Writers[i][k] = 1 + w.Writers[i][k]%3000
				}
				tot += w.Writers[i][k]
			}
		}
		if tot > 50000 {
			w.Readers[0].Kind = "read"
		}
	}
	est := 60
	for _, ch := range w.Writers {
		est += 6 * len(ch)
	}
	return Case{Class: class, W: mustJSON(w), Sched: defaultSched(r, est, 400000, 0)}
}

type c01Sink struct{ b []byte }

func (s *c01Sink) Write(p []byte) (int, error) {
	// a writer endpoint takes time (F-endpoint stall): other tasks run while WriteTo is inside w.Write
	simrt.Yield("c01-sink-write")
	s.b = append(s.b, p...)
	simrt.Yield("c01-sink-written")
	return len(p), nil
}

// endpoint reader with short reads and (0,nil) results (F-endpoint)
type c01Src struct {
	chunks [][]byte
	r      *Rand
	fired  *int
}

func (s *c01Src) Read(p []byte) (int, error) {
	if len(s.chunks) == 0 {
		return 0, io.EOF
	}
	if s.r.Intn(4) == 0 {
		*s.fired++
		return 0, nil
	}
	c := s.chunks[0]
	n := len(c)
	if n > len(p) {
		n = len(p)
	}
	if n > 1 && s.r.Intn(2) == 0 {
		n = 1 + s.r.Intn(n)
		*s.fired++
	}
	copy(p, c[:n])
	if n == len(c) {
		s.chunks = s.chunks[1:]
		if len(s.chunks) == 0 && s.r.Intn(2) == 0 {
			return n, io.EOF // data together with EOF is legal for an io.Reader
		}
	} else {
		s.chunks[0] = c[n:]
	}
	return n, nil
}

type c01Piece struct {
	stamp int64
	b     []byte
}

func runC01(c *Case, e *Env) Outcome {
	var w c01W
	if err := json.Unmarshal(c.W, &w); err != nil {
		return Outcome{Verdict: "inconclusive", Clause: "bad-case", Detail: err.Error()}
	}
	faults := w.CancelAt >= 0
	nw := len(w.Writers)
	saveMax := streams.DefaultMaxBufferSize
	streams.DefaultMaxBufferSize = w.Max
	defer func() { streams.DefaultMaxBufferSize = saveMax }()

	// payloads
	payload := make([][][]byte, nw)
	total := 0
	raw := NewRand(w.RawSeed)
	for i, ch := range w.Writers {
		idx := 0
		for _, n := range ch {
			b := make([]byte, n)
			for k := range b {
				if w.RawSeed != 0 {
					b[k] = byte(raw.U64())
				} else {
					b[k] = byte(i<<6 | idx&63)
				}
				idx++
			}
			payload[i] = append(payload[i], b)
			total += n
		}
	}

	var (
		viol       string
		clause     string
		pieces     = make([][]c01Piece, len(w.Readers))
		eof        = make([]bool, len(w.Readers))
		closeCalls int
		written    int
		wErrs      int
		p          *streams.Stdin
		tee        *streams.Tee
		sec        *streams.Stdin
		blockedW   int
		srcFired   int
		lastW, lastR uint64
		handed       [][2][]byte
	)
	fail := func(cl, f string, a ...any) {
		if viol == "" {
			clause, viol = cl, fmt.Sprintf(f, a...)
		}
	}
	res := e.Bubble(c.Sched, func() {
		p = streams.NewStdin()
		var out stdio.Io = p
		if w.Tee {
			tee, sec = streams.NewTee(p)
			out = tee
		}
		for i := 0; i < nw; i++ {
			out.Open()
		}
		for i := 0; i < nw; i++ {
			i := i
			simrt.Go(func() {
				if w.ViaFrom && i == 0 {
					src := &c01Src{r: NewRand(w.RawSeed ^ 77), fired: &srcFired}
					for _, b := range payload[0] {
						if len(b) > 0 {
							src.chunks = append(src.chunks, b)
						}
					}
					n, err := p.ReadFrom(src)
					written += int(n)
					if err != nil {
						fail("readfrom-error", "ReadFrom returned %v after %d bytes", err, n)
					}
					closeCalls++
					out.Close()
					return
				}
				// like bufio.Writer or an io.Copy loop, the writer reuses one buffer for every chunk: the pipe
				// must have taken a copy by the time Write returns
				var scratch []byte
				for k, chunk := range payload[i] {
					if w.Nested[i] == k {
						out.Open()
					}
					if cap(scratch) < len(chunk) {
						scratch = make([]byte, len(chunk))
					}
					b := scratch[:len(chunk)]
					copy(b, chunk)
					s0 := simrt.Step()
					n, err := out.Write(b)
					for x := range b {
						b[x] = 0xFF // scribble: the caller owns the buffer again
					}
					if simrt.Step()-s0 > 12 {
						blockedW++
					}
					switch {
					case err == nil && n == len(b):
						written += n
					case err == io.ErrClosedPipe && faults:
						wErrs++
					default:
						fail("write-result", "Write(%d bytes) returned (%d, %v)", len(b), n, err)
					}
					if w.Nested[i] == k {
						out.Close()
					}
				}
				closeCalls++
				out.Close()
			})
		}
		for ri, rd := range w.Readers {
			ri, rd := ri, rd
			simrt.Go(func() {
				add := func(b []byte) {
					if len(b) > 0 {
						pieces[ri] = append(pieces[ri], c01Piece{simrt.Stamp(), append([]byte(nil), b...)})
					}
				}
				// what ReadAll hands out is delivered: keep the very slice to see that nobody writes into it
				// afterwards (Read fills the caller's own buffer, which the caller reuses, so only ReadAll)
				keep := func(b []byte) {
					if len(b) > 0 {
						handed = append(handed, [2][]byte{b, append([]byte(nil), b...)})
					}
				}
				_ = keep
				atEOF := func() {
					eof[ri] = true
					if closeCalls != nw && !faults {
						fail("early-eof", "reader %d saw end-of-stream when only %d of %d writers had called Close", ri, closeCalls, nw)
					}
				}
				switch rd.Kind {
				case "read", "read+readall":
					buf := make([]byte, rd.Buf)
					cnt := 0
					for {
						n, err := p.Read(buf)
						add(buf[:n])
						if err == io.EOF {
							atEOF()
							return
						}
						if err != nil {
							fail("read-error", "Read returned %v", err)
							return
						}
						cnt++
						if rd.Kind == "read+readall" && cnt == rd.Switch {
							b, _ := p.ReadAll()
							add(b)
							keep(b)
							atEOF()
							return
						}
					}
				case "readall":
					b, _ := p.ReadAll()
					add(b)
					keep(b)
					atEOF()
				case "writeto":
					sk := &c01Sink{}
					n, err := p.WriteTo(sk)
					add(sk.b)
					if err != nil || int(n) != len(sk.b) {
						fail("writeto-result", "WriteTo returned (%d, %v), sink got %d bytes", n, err, len(sk.b))
					}
					atEOF()
				case "readline":
					err := p.ReadLine(func(b []byte) { add(b) })
					if err != nil {
						fail("readline-error", "ReadLine returned %v", err)
					}
					atEOF()
				}
			})
		}
		if w.Monitor > 0 {
			simrt.Go(func() {
				for k := 0; k < w.Monitor; k++ {
					bw, br := p.Stats()
					if bw < lastW || br < lastR {
						fail("stats-monotone", "Stats went backwards: written %d→%d read %d→%d", lastW, bw, lastR, br)
					}
					if br > bw {
						fail("stats-order", "Stats reports more read (%d) than written (%d)", br, bw)
					}
					lastW, lastR = bw, br
					simrt.Yield("monitor")
				}
			})
		}
		if faults {
			simrt.Go(func() {
				simrt.WaitStep(w.CancelAt)
				if closeCalls < nw {
					e.Fault("cancel-inflight")
				} else {
					e.Fault("cancel-idle")
				}
				p.ForceClose()
			})
		}
	})
	if res.Panic != "" {
		return Outcome{Verdict: "panic", Clause: "panic", Detail: res.Panic}
	}
	if blockedW > 0 {
		e.Probe("writer-held-back")
	}
	if srcFired > 0 {
		e.Fault("endpoint-short-read")
	}
	if viol != "" {
		return violation(clause, "%s", viol)
	}
	for _, hb := range handed {
		if string(hb[0]) != string(hb[1]) {
			return violation("delivered-bytes-changed", "a slice returned by ReadAll was modified after it had been delivered: first difference at byte %d of %d", firstDiff(hb[0], hb[1]), len(hb[1]))
		}
	}
	// ---- history checks
	var all []c01Piece
	for _, ps := range pieces {
		all = append(all, ps...)
	}
	for i := 1; i < len(all); i++ { // merge by stamp (insertion sort: lists are short)
		for j := i; j > 0 && all[j].stamp < all[j-1].stamp; j-- {
			all[j], all[j-1] = all[j-1], all[j]
		}
	}
	var got []byte
	for _, pc := range all {
		got = append(got, pc.b...)
	}
	readline := w.Readers[0].Kind == "readline"
	if !faults {
		for ri := range eof {
			if !eof[ri] {
				return violation("no-eof", "reader %d never saw end-of-stream", ri)
			}
		}
		if written != total {
			return violation("write-count", "writers were acknowledged %d bytes, issued %d", written, total)
		}
		if !readline && len(got) != total {
			return violation("conservation", "readers received %d bytes, writers wrote %d", len(got), total)
		}
	}
	switch {
	case readline:
		// ReadLine re-frames on \n and appends one: compare with the model of that framing
		if !faults && w.RawSeed != 0 {
			var src []byte
			for _, b := range payload[0] {
				src = append(src, b...)
			}
			want := c01Lines(src)
			if string(want) != string(got) {
				return violation("readline-content", "ReadLine delivered %d bytes, expected %d (first difference at %d)", len(got), len(want), firstDiff(got, want))
			}
		}
	case w.RawSeed != 0:
		var src []byte
		for _, b := range payload[0] {
			src = append(src, b...)
		}
		if !faults && string(src) != string(got) {
			return violation("content", "single-writer stream differs from what was written at byte %d (got %d bytes, want %d)", firstDiff(got, src), len(got), len(src))
		}
	default:
		if o := c01CheckTagged(got, w.Writers, faults); o != "" {
			return violation("order", "%s", o)
		}
	}
	if w.Tee && !faults {
		b, _ := sec.ReadAll()
		if len(b) != total {
			return violation("tee-conservation", "tee secondary holds %d bytes, writers wrote %d", len(b), total)
		}
		if w.RawSeed == 0 {
			if o := c01CheckTagged(b, w.Writers, false); o != "" {
				return violation("tee-order", "tee secondary: %s", o)
			}
		}
	}
	if !faults {
		bw, br := p.Stats()
		if int(bw) != total {
			return violation("stats-written", "Stats reports %d bytes written, writers wrote %d", bw, total)
		}
		if !readline && int(br) != len(got) {
			return violation("stats-read", "Stats reports %d bytes read, readers received %d (reader kind %s)", br, len(got), w.Readers[0].Kind)
		}
	}
	return okOutcome()
}

func c01Lines(src []byte) []byte {
	// bufio.ScanLines: split on \n, drop one trailing \r, final unterminated line counts; ReadLine appends \n to each
	var out []byte
	for len(src) > 0 {
		i := 0
		for i < len(src) && src[i] != '\n' {
			i++
		}
		line := src[:i]
		if i < len(src) {
			src = src[i+1:]
		} else {
			src = nil
		}
		if len(line) > 0 && line[len(line)-1] == '\r' {
			line = line[:len(line)-1]
		}
		out = append(out, line...)
		out = append(out, '\n')
	}
	return out
}

func firstDiff(a, b []byte) int {
	for i := 0; i < len(a) && i < len(b); i++ {
		if a[i] != b[i] {
			return i
		}
	}
	if len(a) < len(b) {
		return len(a)
	}
	return len(b)
}

// c01CheckTagged: got must be an interleaving of the writers' chunks, each chunk contiguous,
// every byte once, per-writer order kept. Under faults: per-writer strictly increasing
// indexes (an order-preserving, duplicate-free selection).
func c01CheckTagged(got []byte, writers [][]int, faults bool) string {
	nw := len(writers)
	next := make([]int, nw)  // next expected index per writer
	chunk := make([]int, nw) // next chunk number per writer
	cur, rem := -1, 0
	for pos, b := range got {
		wi := int(b >> 6)
		if wi >= nw {
			return fmt.Sprintf("byte %d carries writer id %d but there are %d writers (garbage)", pos, wi, nw)
		}
		idx := int(b & 63)
		if faults {
			if idx < next[wi] {
				return fmt.Sprintf("byte %d: writer %d index %d delivered after index %d (duplicate or reordered)", pos, wi, idx, next[wi]-1)
			}
			next[wi] = idx + 1
			continue
		}
		if rem > 0 && wi != cur {
			return fmt.Sprintf("byte %d: a chunk of writer %d was torn by a byte of writer %d", pos, cur, wi)
		}
		if idx != next[wi]&63 {
			return fmt.Sprintf("byte %d: writer %d index %d, expected %d (lost, duplicated or reordered)", pos, wi, idx, next[wi]&63)
		}
		next[wi]++
		if rem == 0 {
			for chunk[wi] < len(writers[wi]) && writers[wi][chunk[wi]] == 0 {
				chunk[wi]++
			}
			if chunk[wi] >= len(writers[wi]) {
				return fmt.Sprintf("byte %d: writer %d delivered more bytes than it wrote", pos, wi)
			}
			cur, rem = wi, writers[wi][chunk[wi]]
			chunk[wi]++
		}
		rem--
	}
	return ""
}

func shrinkC01(c *Case) []Case {
	var w c01W
	json.Unmarshal(c.W, &w)
	var out []Case
	emit := func(v c01W) { out = append(out, Case{Class: c.Class, W: mustJSON(v), Sched: c.Sched}) }
	cp := func() c01W {
		var v c01W
		json.Unmarshal(c.W, &v)
		return v
	}
	for i := range w.Writers { // drop a writer
		if len(w.Writers) > 1 {
			v := cp()
			v.Writers = append(v.Writers[:i:i], v.Writers[i+1:]...)
			v.Nested = append(v.Nested[:i:i], v.Nested[i+1:]...)
			emit(v)
		}
	}
	if len(w.Readers) > 1 {
		v := cp()
		v.Readers = v.Readers[:1]
		emit(v)
	}
	for i := range w.Writers { // halve chunk lists, drop single chunks
		if n := len(w.Writers[i]); n > 1 {
			v := cp()
			v.Writers[i] = v.Writers[i][:n/2]
			if v.Nested[i] >= n/2 {
				v.Nested[i] = -1
			}
			emit(v)
			v = cp()
			v.Writers[i] = v.Writers[i][n/2:]
			v.Nested[i] = -1
			emit(v)
		}
	}
	for i := range w.Writers {
		for k := range w.Writers[i] {
			if len(w.Writers[i]) > 1 && len(w.Writers[i]) <= 8 {
				v := cp()
				v.Writers[i] = append(v.Writers[i][:k:k], v.Writers[i][k+1:]...)
				v.Nested[i] = -1
				emit(v)
			}
			if w.Writers[i][k] > 1 {
				v := cp()
				v.Writers[i][k] /= 2
				emit(v)
			}
		}
	}
	if w.Monitor > 0 {
		v := cp()
		v.Monitor = 0
		emit(v)
	}
	if w.Tee {
		v := cp()
		v.Tee = false
		emit(v)
	}
	for i := range w.Nested {
		if w.Nested[i] >= 0 {
			v := cp()
			v.Nested[i] = -1
			emit(v)
		}
	}
	if w.Readers[0].Buf > 1 {
		v := cp()
		v.Readers[0].Buf /= 2
		emit(v)
	}
	if w.CancelAt > 0 {
		v := cp()
		v.CancelAt /= 2
		emit(v)
	}
	for _, st := range []string{"rr", "pb0"} {
		if c.Sched.Strategy != st {
			v := Case{Class: c.Class, W: c.W, Sched: c.Sched}
			v.Sched.Strategy = st
			v.Sched.Decisions = nil
			out = append(out, v)
		}
	}
	return out
}
