package h

// Shared base of the interpreter-level harnesses: run a murex block as the root
// task of a bubble, exactly like murex's own test helper does outside one.

import (
	"fmt"
	"sort"
	"strings"
	"sync"
	"time"

	_ "github.com/lmorg/murex/builtins"
	_ "github.com/lmorg/murex/builtins/optional/time"
	"github.com/lmorg/murex/builtins/pipes/streams"
	"github.com/lmorg/murex/config"
	"github.com/lmorg/murex/config/defaults"
	"github.com/lmorg/murex/lang"
	"github.com/lmorg/murex/lang/ref"
)

var murexOnce sync.Once

func initMurex(*Job) {
	murexOnce.Do(func() {
		defaults.Config(config.InitConf, false)
		lang.InitEnv()
	})
}

type blockResult struct {
	Out, Err string
	Exit     int
	ExecErr  string
	Returned bool
}

func (b blockResult) obs() string {
	return fmt.Sprintf("exit=%d execerr=%q\nstdout=%q\nstderr=%q", b.Exit, b.ExecErr, b.Out, b.Err)
}

// pipeLimit is the buffer-limit knob for pipes created while a program runs (0: production value).
// The block's own capture streams are created before it applies: nobody drains them until the block returns.
var pipeLimit int

func execBlock(block string, module string) (r blockResult) {
	fork := newFork(module)
	if pipeLimit > 0 {
		save := streams.DefaultMaxBufferSize
		streams.DefaultMaxBufferSize = pipeLimit
		defer func() { streams.DefaultMaxBufferSize = save }()
	}
	return runFork(fork, block)
}

// newFork creates the function scope a block runs in, with its capture streams (production buffer limit)
func newFork(module string) *lang.Fork {
	fork := lang.ShellProcess.Fork(lang.F_FUNCTION | lang.F_NEW_MODULE | lang.F_NO_STDIN | lang.F_CREATE_STDOUT | lang.F_CREATE_STDERR)
	fork.Name.Set("mxsim")
	fork.FileRef = &ref.File{Source: &ref.Source{Module: module}}
	return fork
}

func runFork(fork *lang.Fork, block string) (r blockResult) {
	exitNum, err := fork.Execute([]rune(block))
	r.Exit = exitNum
	if err != nil {
		r.ExecErr = err.Error()
	}
	bErr, _ := fork.Stderr.ReadAll()
	bOut, _ := fork.Stdout.ReadAll()
	r.Out, r.Err = string(bOut), string(bErr)
	r.Returned = true
	return
}

// runProgram runs block under schedule sc; after it returns `settle` of simulated
// time passes so that delayed goroutines (grace periods, deregistration) fire inside the run.
func (e *Env) runProgram(sc Sched, block string, settle time.Duration) (blockResult, SimResult) {
	var r blockResult
	res := e.Bubble(sc, func() {
		r = execBlock(block, "murex/mxsim")
		if settle > 0 {
			time.Sleep(settle)
		}
	})
	return r, res
}

// crashText: the texts murex prints when it reaches an internal panic
func crashText(s string) string {
	for _, pat := range []string{"panic caught", "Murex has crashed", "runtime error:", "goroutine "} {
		if i := strings.Index(s, pat); i >= 0 {
			j := i + 160
			if j > len(s) {
				j = len(s)
			}
			return s[i:j]
		}
	}
	return ""
}

func sortedLines(s string) string {
	l := strings.Split(strings.TrimRight(s, "\n"), "\n")
	sort.Strings(l)
	return strings.Join(l, "\n")
}

func interpSched(r *Rand, est int) Sched {
	sc := Sched{Strategy: pickStrategy(r), EstLen: est, MaxSteps: 400000}
	// delay bounding (F-stall of a goroutine that has just been started): murex cancels and cleans up in
	// `go` statements, whose effect may arrive late
	sc.DelayProb = []float64{0, 0, 0.03, 0.1}[r.Intn(4)]
	return sc
}

// fidsOf lists FIDs currently registered (C28 cross-check used by several harnesses)
func fidList() []string {
	var fids []string
	for _, p := range lang.GlobalFIDs.ListAll() {
		fids = append(fids, fmt.Sprintf("%d:%s:%s", p.Id, p.Name.String(), p.State.String()))
	}
	return fids
}

// setPipeLimit: the buffer-limit knob (streams.DefaultMaxBufferSize is an exported var); 0 keeps the production value
func setPipeLimit(max int) func() {
	save := pipeLimit
	pipeLimit = max
	return func() { pipeLimit = save }
}
