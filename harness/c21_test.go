package h

// C21: external commands report their real exit status. The fault is the death
// of a peer process: a helper child exits with every status 0..255 or dies by
// every signal that terminates a process, in four contexts. The murex side runs
// under the seeded scheduler; the kernel and the child are real.

import (
	"encoding/json"
	"fmt"
	"strings"
	"time"
)

type c21W struct {
	Kind    string `json:"kind"` // exit | sig
	N       int    `json:"n"`
	Context string `json:"context"` // alone | chain | try | exitnum
}

func init() {
	register(&Harness{Name: "c21", GenI: genC21, Gen: func(r *Rand, tier string) Case { return genC21(r.Intn(c21Space()), r, tier) }, Run: runC21, Shrink: shrinkC21, Init: initMurex})
	propHarness["C21"] = "c21"
}

// signals whose default action terminates the process (Linux): everything except
// CHLD(17) CONT(18) STOP(19) TSTP(20) TTIN(21) TTOU(22) URG(23) WINCH(28); 32 and 33 are reserved by glibc/Go
var c21Signals = func() []int {
	var s []int
	for n := 1; n <= 64; n++ {
		switch n {
		case 17, 18, 19, 20, 21, 22, 23, 28, 32, 33:
			continue
		}
		s = append(s, n)
	}
	return s
}()

var c21Contexts = []string{"alone", "and", "or", "try", "exitnum"}

func c21Space() int { return (256 + len(c21Signals)) * len(c21Contexts) }

func genC21(i int, r *Rand, tier string) Case {
	i = i % c21Space()
	ctx := c21Contexts[i%len(c21Contexts)]
	k := i / len(c21Contexts)
	w := c21W{Context: ctx}
	if k < 256 {
		w.Kind, w.N = "exit", k
	} else {
		w.Kind, w.N = "sig", c21Signals[k-256]
	}
	return Case{Class: w.Kind + "/" + ctx, W: mustJSON(w), Sched: interpSched(r, 600)}
}

func runC21(c *Case, e *Env) Outcome {
	var w c21W
	if err := json.Unmarshal(c.W, &w); err != nil {
		return Outcome{Verdict: "inconclusive", Clause: "bad-case", Detail: err.Error()}
	}
	h := fmt.Sprintf("%s %s %d", e.job.Aux, w.Kind, w.N)
	failed := w.Kind == "sig" || w.N != 0 // what the statement says about this child
	var src string
	switch w.Context {
	case "alone":
		src = h
	case "and":
		src = h + " && out yes\nout end"
	case "or":
		src = h + " || out no\nout end"
	case "try":
		src = "try { " + h + "; out after }"
	case "exitnum":
		src = h + "\nexitnum"
	}
	got, res := e.runProgram(c.Sched, src, time.Second)
	if res.Panic != "" {
		return Outcome{Verdict: "panic", Clause: "panic", Detail: res.Panic}
	}
	if w.Kind == "sig" {
		e.Fault("child-killed-by-signal")
	} else if w.N != 0 {
		e.Fault("child-exit-nonzero")
	}
	// (not crashText: a child killed by a signal may print anything on its own stderr)
	for _, pat := range []string{"panic caught", "Murex has crashed"} {
		if strings.Contains(got.Out+got.Err+got.ExecErr, pat) {
			return violation("internal-panic", "program:\n%s\nreported %q; stderr %q", src, pat, got.Err)
		}
	}
	if !strings.Contains(got.Out, "helper-out") {
		return Outcome{Verdict: "inconclusive", Clause: "helper-did-not-run", Detail: fmt.Sprintf("program:\n%s\nstdout %q stderr %q", src, got.Out, got.Err)}
	}
	desc := fmt.Sprintf("program:\n%s\nstdout %q, exit number %d", strings.ReplaceAll(src, e.job.Aux, "mxhelper"), got.Out, got.Exit)
	kind := "exit-status"
	if w.Kind == "sig" {
		kind = "signal-death"
	}
	switch w.Context {
	case "alone":
		if w.Kind == "exit" && got.Exit != w.N {
			return violation("exit-number-differs", "%s; the child exited with status %d", desc, w.N)
		}
		if w.Kind == "sig" && got.Exit == 0 {
			return violation("signal-death-exit-zero", "%s; the child was killed by signal %d", desc, w.N)
		}
	case "and":
		yes := strings.Contains(got.Out, "yes\n")
		if failed && yes {
			return violation(kind+"-treated-as-success[&&]", "%s; the child failed, so `&& out yes` must be skipped", desc)
		}
		if !failed && !yes {
			return violation("success-treated-as-failure[&&]", "%s; the child exited 0", desc)
		}
	case "or":
		no := strings.Contains(got.Out, "no\n")
		if failed && !no {
			return violation(kind+"-treated-as-success[||]", "%s; the child failed, so `|| out no` must run", desc)
		}
		if !failed && no {
			return violation("success-treated-as-failure[||]", "%s; the child exited 0", desc)
		}
	case "try":
		after := strings.Contains(got.Out, "after\n")
		if failed && after {
			return violation(kind+"-treated-as-success[try]", "%s; the child failed, so try must end the block before `out after`", desc)
		}
		if !failed && !after {
			return violation("success-treated-as-failure[try]", "%s; the child exited 0", desc)
		}
		if failed && got.Exit == 0 {
			return violation(kind+"-try-exit-zero", "%s; a try block ended by a failed command must have its (non-zero) exit number", desc)
		}
	case "exitnum":
		lines := strings.Split(strings.TrimSpace(got.Out), "\n")
		last := lines[len(lines)-1]
		if w.Kind == "exit" && last != fmt.Sprint(w.N) {
			return violation("exitnum-differs", "%s; the child exited with status %d", desc, w.N)
		}
		if w.Kind == "sig" && last == "0" {
			return violation("signal-death-exit-zero", "%s; the child was killed by signal %d", desc, w.N)
		}
	}
	return okOutcome()
}

func shrinkC21(c *Case) []Case {
	var out []Case
	for _, st := range []string{"rr", "pb0"} {
		if c.Sched.Strategy != st {
			v := *c
			v.Sched.Strategy = st
			out = append(out, v)
		}
	}
	return out
}
