package h

// C11: variables are scoped per function call; globals are shared.
//
// Programs are generated as a tree of scope operations (set / $GLOBAL set / !set /
// tagged read) spread over nested function calls, if / switch / foreach / try bodies
// and ${ } sub-shells, printed as murex source and compared with a scope-stack model
// written from the property statement (DESIGN.md Appendix A "Scopes"): a call gets a
// fresh frame, a block uses the frame of its function, a read looks in the frame, then
// in the global table, then fails; !set removes the frame's binding only.
//
// Two classes. "sequential": one thread of control, every tagged read is exact.
// "concurrent": the same function runs at once as 2-3 stages of one pipeline and/or
// in bg blocks; each call must read back exactly what THAT call wrote (isolation),
// reads of the one shared global must return a value some call wrote (register rules
// below), and the caller's own variables must be unchanged afterwards.
//
// The tree, generator, printer, model, oracle and shrinker are shared with C25
// (c25_test.go), which runs the same shapes over `config set/get/default`.

import (
	"encoding/json"
	"fmt"
	"strconv"
	"strings"

	"github.com/lmorg/murex/lang"
)

// ---------------------------------------------------------------- program tree

type snode struct {
	T    string  `json:"t"`              // set gset unset read gread call if switch foreach try sub
	N    string  `json:"n,omitempty"`    // variable / option name; foreach: loop variable
	V    string  `json:"v,omitempty"`    // value written
	K    int     `json:"k,omitempty"`    // read/sub: tag; call: function number; foreach: iterations
	Op   string  `json:"op,omitempty"`   // if/switch: true|false; gread: "plain" reads $g instead of $GLOBAL.g
	Kids []snode `json:"kids,omitempty"` // body (if/switch: the branch taken when Op is true)
	Else []snode `json:"else,omitempty"` // if/switch: the other branch
}

type scW struct {
	Conc   bool        `json:"conc,omitempty"`
	Funcs  [][]snode   `json:"funcs,omitempty"` // sf1..sfn; sf<i> only calls sf<j> with j > i. Concurrent class: sf1 is the function called concurrently
	Main   []snode     `json:"main"`            // the harness block (itself a function scope); concurrent class: the part before the calls
	Bg     []string    `json:"bg,omitempty"`    // ids of the calls of sf1 made in bg blocks
	Pipe   []string    `json:"pipe,omitempty"`  // ids of the calls of sf1 that are stages of one pipeline
	Post   []snode     `json:"post,omitempty"`  // concurrent class: after every call has finished
	Sess   [][2]string `json:"sess,omitempty"`  // C25: session-level settings made by the harness before the program
	K      int         `json:"k"`               // schedules per program
	Limits []int       `json:"limits,omitempty"`
}

// scDialect: what the operations are printed as and which names exist
type scDialect struct {
	cfg    bool
	names  []string // names used by set / unset / read
	shared string   // the name every concurrent call may write
	defs   map[string]string
}

var c11Dialect = &scDialect{names: []string{"x", "y", "z"}, shared: "g"}

// isGlobal: a name whose set writes the shared table from any depth (C25: a global option)
func (d *scDialect) isGlobal(n string) bool { return d.cfg && n == d.shared }

func init() {
	register(&Harness{Name: "c11", Gen: func(r *Rand, tier string) Case { return genScope(c11Dialect, r, tier) },
		Run:    func(c *Case, e *Env) Outcome { return runScope(c11Dialect, c, e) },
		Shrink: func(c *Case) []Case { return shrinkScope(c11Dialect, c) }, Init: initMurex})
	propHarness["C11"] = "c11"
}

// ---------------------------------------------------------------- generator

type scGen struct {
	d      *scDialect
	r      *Rand
	conc   bool
	tag    int
	val    int
	budget int
	nfuncs int
	recent []string // names set by the function being generated
	subs   bool     // the program may use ${ } (then no buffer limit: nobody drains a sub-shell's capture stream until it ends)
}

func (g *scGen) name() string { return g.d.names[g.r.Intn(len(g.d.names))] }

// local: a name that only ever has per-call bindings
func (g *scGen) local() string {
	for {
		if n := g.name(); !g.d.isGlobal(n) {
			return n
		}
	}
}

// recentName: mostly a name this function has set (so that most reads see a binding), sometimes any name
func (g *scGen) recentName() string {
	if len(g.recent) > 0 && g.r.Intn(10) < 6 {
		return g.recent[g.r.Intn(len(g.recent))]
	}
	return g.name()
}

func (g *scGen) value(p string) string {
	g.val++
	return fmt.Sprintf("%s%d", p, g.val)
}

func (g *scGen) set(n string) snode {
	g.recent = append(g.recent, n)
	p := "v"
	if g.d.isGlobal(n) {
		p = "g"
	}
	return snode{T: "set", N: n, V: g.value(p)}
}

func (g *scGen) read(n string) snode {
	g.tag++
	nd := snode{T: "read", N: n, K: g.tag}
	if g.d.cfg && g.subs && g.r.Bool() {
		nd.Op = "sub"
	}
	return nd
}

func (g *scGen) gread(n string) snode {
	g.tag++
	nd := snode{T: "gread", N: n, K: g.tag}
	if g.conc && g.r.Intn(3) == 0 {
		nd.Op = "plain"
	}
	return nd
}

// leaf: one scope operation. fn is the function being generated (0: the harness block)
func (g *scGen) leaf(fn int) snode {
	c := g.r.Intn(20)
	if g.d.cfg {
		switch {
		case c < 8:
			return g.set(g.name())
		case c < 17:
			return g.read(g.recentName())
		default:
			return snode{T: "unset", N: g.recentName()}
		}
	}
	switch {
	case c < 6:
		return g.set(g.name())
	case c < 13:
		return g.read(g.recentName())
	case c < 15:
		return snode{T: "unset", N: g.recentName()}
	case c < 18:
		if g.conc && fn > 0 {
			return snode{T: "gset", N: g.d.shared, V: g.value("g")}
		}
		return snode{T: "gset", N: g.name(), V: g.value("g")}
	default:
		if g.conc {
			return g.gread(g.d.shared)
		}
		return g.gread(g.name())
	}
}

func (g *scGen) block(fn, depth, n int) []snode {
	var out []snode
	for i := 0; i < n; i++ {
		g.budget--
		c := g.r.Intn(20)
		if depth >= 3 || g.budget <= 0 {
			c = g.r.Intn(12)
		}
		sub := func() []snode { return g.block(fn, depth+1, 1+g.r.Intn(3)) }
		switch {
		case c < 12:
			out = append(out, g.leaf(fn))
		case c < 14: // call a later function
			if fn < g.nfuncs && !(g.conc && fn == 0) {
				out = append(out, snode{T: "call", K: fn + 1 + g.r.Intn(g.nfuncs-fn)})
			} else {
				out = append(out, g.leaf(fn))
			}
		case c == 14:
			nd := snode{T: "if", Op: []string{"true", "true", "false"}[g.r.Intn(3)], Kids: sub()}
			if g.r.Bool() {
				nd.Else = sub()
			}
			out = append(out, nd)
		case c == 15:
			nd := snode{T: "switch", Op: []string{"true", "true", "false"}[g.r.Intn(3)], Kids: sub()}
			if nd.Op == "false" || g.r.Bool() {
				nd.Else = sub()
			}
			out = append(out, nd)
		case c == 16 || c == 17:
			nd := snode{T: "foreach", N: "i", K: []int{1, 2, 2, 3}[g.r.Intn(4)]}
			if g.conc {
				nd.K = 1 + g.r.Intn(2)
			}
			if !g.d.cfg {
				nd.N = g.name()
			}
			nd.Kids = sub()
			out = append(out, nd)
		case c == 18:
			out = append(out, snode{T: "try", Kids: sub()})
		default:
			if g.subs {
				g.tag++
				out = append(out, snode{T: "sub", K: g.tag, Kids: sub()})
			} else {
				out = append(out, g.leaf(fn))
			}
		}
	}
	return out
}

var scLimits = []int{0, 0, 0, 1, 5, 64}

func genScope(d *scDialect, r *Rand, tier string) Case {
	conc := r.Intn(5) < 2
	var last scW
	for try := 0; try < 40; try++ {
		budget := 20 - try/2
		if conc {
			budget = 12 - try/4
		}
		w := genScopeOnce(d, r, tier, conc, budget)
		last = w
		if scValid(d, &w) == "" {
			break
		}
		if try == 39 { // never seen; keeps Gen total
			last = scW{Conc: false, Main: []snode{{T: "set", N: d.names[0], V: "v1"}, {T: "read", N: d.names[0], K: 1}}, K: w.K, Limits: w.Limits}
		}
	}
	class := "sequential"
	est := 1500
	if last.Conc {
		class = "concurrent"
		est = 4000
	}
	sc := interpSched(r, est)
	if last.Conc {
		sc.MaxSteps = 1000000 // largest fault-free run seen: see max_decisions_in_an_ok_run in the evidence (that figure sums the K runs of a case)
	}
	return Case{Class: class, W: mustJSON(last), Sched: sc}
}

func genScopeOnce(d *scDialect, r *Rand, tier string, conc bool, budget int) scW {
	g := &scGen{d: d, r: r, conc: conc, budget: budget, subs: r.Intn(10) < 3}
	w := scW{Conc: conc}
	if conc {
		g.nfuncs = 1 + r.Intn(2)
	} else {
		g.nfuncs = []int{0, 1, 1, 2, 2, 3}[r.Intn(6)]
	}
	w.Funcs = make([][]snode, g.nfuncs)
	// later functions first: the tags then read in roughly the order they are printed, which does not matter
	for i := g.nfuncs; i >= 1; i-- {
		n := 2 + r.Intn(3)
		if conc && i == 1 {
			n = 3 + r.Intn(4)
		}
		g.recent = nil
		w.Funcs[i-1] = g.block(i, 1, n)
		if conc && i == 1 {
			// each call writes and re-reads its own locals several times: make sure of a minimum
			body := w.Funcs[0]
			nm := g.local()
			body = append([]snode{g.set(nm)}, body...)
			mid := 1 + r.Intn(len(body))
			body = append(body[:mid:mid], append([]snode{g.read(nm)}, body[mid:]...)...)
			body = append(body, g.set(nm), g.read(nm))
			w.Funcs[0] = body
		}
	}
	g.recent = nil
	if conc {
		if !d.cfg {
			w.Main = append(w.Main, snode{T: "gset", N: d.shared, V: g.value("g")})
		}
		np := 1 + r.Intn(4)
		for i := 0; i < np; i++ {
			lf := g.leaf(0)
			if lf.T == "gread" || lf.T == "unset" {
				lf = g.set(g.name())
			}
			w.Main = append(w.Main, lf)
		}
		ids := []string{"a", "b", "c", "d", "e"}
		nPipe := []int{0, 2, 2, 2, 3}[r.Intn(5)]
		nBg := []int{0, 0, 1, 1, 2}[r.Intn(5)]
		if nPipe+nBg < 2 {
			nBg = 2
		}
		if nPipe+nBg > 4 {
			nBg = 1
		}
		w.Pipe = append(w.Pipe, ids[:nPipe]...)
		w.Bg = append(w.Bg, ids[nPipe:nPipe+nBg]...)
		for _, nm := range d.names {
			if nm != d.shared {
				w.Post = append(w.Post, g.read(nm))
			}
		}
		if d.cfg {
			w.Post = append(w.Post, g.read(d.shared))
		} else {
			w.Post = append(w.Post, g.gread(d.shared))
		}
	} else {
		w.Main = g.block(0, 0, 3+r.Intn(6))
	}
	// every function is called from somewhere (the concurrent class calls sf1 through bg / the pipeline)
	for i := g.nfuncs; i >= 1; i-- {
		used := scCalls(w.Main, i)
		for _, f := range w.Funcs {
			used = used || scCalls(f, i)
		}
		if used || (conc && i == 1) {
			continue
		}
		into := &w.Main
		j := r.Intn(i)
		if conc && j == 0 {
			j = 1
		}
		if j > 0 {
			into = &w.Funcs[j-1]
		}
		at := r.Intn(len(*into) + 1)
		*into = append((*into)[:at:at], append([]snode{{T: "call", K: i}}, (*into)[at:]...)...)
	}
	if d.cfg {
		for _, nm := range d.names {
			if r.Intn(3) == 0 {
				w.Sess = append(w.Sess, [2]string{nm, g.value("s")})
			}
		}
	}
	w.K = 3
	if tier == "thorough" {
		w.K = 8
	}
	for k := 0; k < w.K; k++ {
		lim := scLimits[r.Intn(len(scLimits))]
		if g.subs {
			lim = 0
		}
		w.Limits = append(w.Limits, lim)
	}
	return w
}

// ---------------------------------------------------------------- printing

// id: "" (sequential class: no call ids), "m" (the harness block of the concurrent class) or "$1" (inside a function of the concurrent class)
func (d *scDialect) print(b *strings.Builder, nodes []snode, ind, id string) {
	pre, suf := "", ""
	if id != "" {
		pre, suf = id+" ", "-"+id
	}
	for i := range nodes {
		n := &nodes[i]
		b.WriteString(ind)
		switch n.T {
		case "set":
			if d.cfg {
				fmt.Fprintf(b, "config set mxsim %s \"%s%s\"", n.N, n.V, suf)
			} else {
				fmt.Fprintf(b, "%s = \"%s%s\"", n.N, n.V, suf)
			}
		case "gset":
			fmt.Fprintf(b, "$GLOBAL.%s = \"%s%s\"", n.N, n.V, suf)
		case "unset":
			if d.cfg {
				fmt.Fprintf(b, "config default mxsim %s", n.N)
			} else {
				fmt.Fprintf(b, "!set %s", n.N)
			}
		case "read":
			if d.cfg && n.Op == "sub" {
				fmt.Fprintf(b, "out \"%sr%d=${config get mxsim %s}\"", pre, n.K, n.N)
			} else if d.cfg {
				fmt.Fprintf(b, "config get mxsim %s -> regexp \"s/^/%sr%d=/\"", n.N, pre, n.K)
			} else {
				fmt.Fprintf(b, "out \"%sr%d=$%s\" || out \"%se%d\"", pre, n.K, n.N, pre, n.K)
			}
		case "gread":
			if n.Op == "plain" {
				fmt.Fprintf(b, "out \"%sr%d=$%s\" || out \"%se%d\"", pre, n.K, n.N, pre, n.K)
			} else {
				fmt.Fprintf(b, "out \"%sr%d=$GLOBAL.%s\" || out \"%se%d\"", pre, n.K, n.N, pre, n.K)
			}
		case "call":
			fmt.Fprintf(b, "sf%d", n.K)
			if id != "" {
				b.WriteString(" " + id)
			}
		case "if":
			b.WriteString("if { " + n.Op + " } then {\n")
			d.print(b, n.Kids, ind+"  ", id)
			b.WriteString(ind + "}")
			if len(n.Else) > 0 {
				b.WriteString(" else {\n")
				d.print(b, n.Else, ind+"  ", id)
				b.WriteString(ind + "}")
			}
		case "switch":
			b.WriteString("switch {\n" + ind + "  case { " + n.Op + " } then {\n")
			d.print(b, n.Kids, ind+"    ", id)
			b.WriteString(ind + "  }\n")
			if len(n.Else) > 0 {
				b.WriteString(ind + "  default {\n")
				d.print(b, n.Else, ind+"    ", id)
				b.WriteString(ind + "  }\n")
			}
			b.WriteString(ind + "}")
		case "foreach":
			fmt.Fprintf(b, "a [1..%d] -> foreach %s {\n", n.K, n.N)
			d.print(b, n.Kids, ind+"  ", id)
			b.WriteString(ind + "}")
		case "try":
			b.WriteString("try {\n")
			d.print(b, n.Kids, ind+"  ", id)
			b.WriteString(ind + "}")
		case "sub":
			b.WriteString("out ${\n")
			d.print(b, n.Kids, ind+"  ", id)
			fmt.Fprintf(b, "%s  out \"%ss%d\"\n%s}", ind, pre, n.K, ind)
		}
		b.WriteString("\n")
	}
}

func (w *scW) source(d *scDialect) string {
	var b strings.Builder
	id, mid := "", ""
	if w.Conc {
		id, mid = "$1", "m"
	}
	for i, f := range w.Funcs {
		fmt.Fprintf(&b, "function sf%d {\n", i+1)
		d.print(&b, f, "  ", id)
		if w.Conc && i == 0 {
			b.WriteString("  <stdin>\n") // a pipeline stage hands the lines of the stages before it on
		}
		b.WriteString("}\n")
	}
	d.print(&b, w.Main, "", mid)
	if !w.Conc {
		b.WriteString("out end\n")
		return b.String()
	}
	for i := range w.Bg {
		fmt.Fprintf(&b, "$GLOBAL.w%d = \"0\"\n", i+1)
	}
	for i, c := range w.Bg {
		fmt.Fprintf(&b, "bg { sf1 %s; $GLOBAL.w%d = \"1\" }\n", c, i+1)
	}
	if len(w.Pipe) > 0 {
		b.WriteString("out p0")
		for _, c := range w.Pipe {
			b.WriteString(" | sf1 " + c)
		}
		b.WriteString("\n")
	}
	for i := range w.Bg {
		fmt.Fprintf(&b, "while { $GLOBAL.w%d != \"1\" } { sleep 1 }\n", i+1)
	}
	d.print(&b, w.Post, "", mid)
	b.WriteString("out \"m end\"\n")
	return b.String()
}

// ---------------------------------------------------------------- reference model of the statement

type scEv struct {
	W    bool
	Val  string // W: value written
	Line int    // R: index of the expected line that shows the value read
}

// scModel interprets one thread of control (the harness block, or one concurrent call)
type scModel struct {
	d      *scDialect
	w      *scW
	global map[string]string
	id     string
	mode   string   // "exact" | "call" (reads of the shared name: any value written) | "post" (final value)
	out    []string // expected stdout lines; a trailing \x00 stands for a value checked by the register rules
	src    []string // per line: where the value comes from (local | global | undef | marker | shared)
	ev     []scEv
	// the program leaves the domain the statement describes (reason); such programs are not generated and not kept by the shrinker
	invalid string
	inTry   int
	expErr  int // reads that must fail
	tolErr  int // `!set` of a name that has no binding in this scope: murex reports an error, the statement says nothing
	steps   int
	cover   map[string]int
}

func (m *scModel) line(s, src string) {
	if m.id != "" {
		s = m.id + " " + s
	}
	m.out = append(m.out, s)
	m.src = append(m.src, src)
}

func (m *scModel) val(v string) string {
	if m.id != "" {
		return v + "-" + m.id
	}
	return v
}

func (m *scModel) bad(why string) {
	if m.invalid == "" {
		m.invalid = why
	}
}

func (m *scModel) gwrite(n, v string) {
	m.global[n] = v
	if n == m.d.shared && m.mode != "exact" {
		m.ev = append(m.ev, scEv{W: true, Val: v})
	}
}

// sharedRead: a read that resolves to the shared name while other calls may be writing it
func (m *scModel) sharedRead(tag int) {
	m.ev = append(m.ev, scEv{Line: len(m.out)})
	m.line(fmt.Sprintf("r%d=\x00", tag), "shared")
}

func (m *scModel) fail(tag int) {
	m.expErr++
	m.cover["undef-read"]++
	if m.inTry > 0 {
		m.bad("a failing read inside try (what try does with it is C05's subject)")
	}
	m.line(fmt.Sprintf("e%d", tag), "undef")
}

func (m *scModel) block(nodes []snode, fr map[string]string) {
	for i := range nodes {
		n := &nodes[i]
		m.steps++
		if m.steps > 400 {
			m.bad("too long")
			return
		}
		switch n.T {
		case "set":
			if m.d.isGlobal(n.N) {
				m.gwrite(n.N, m.val(n.V))
			} else {
				fr[n.N] = m.val(n.V)
			}
		case "gset":
			m.gwrite(n.N, m.val(n.V))
		case "unset":
			switch {
			case m.d.cfg && m.d.isGlobal(n.N):
				m.gwrite(n.N, m.d.defs[n.N])
			case m.d.cfg:
				fr[n.N] = m.d.defs[n.N]
				m.cover["default-in-scope"]++
			default:
				if _, ok := fr[n.N]; ok {
					delete(fr, n.N)
					if _, g := m.global[n.N]; g {
						m.cover["unset-reveals-global"]++
					}
				} else {
					m.tolErr++
					if _, g := m.global[n.N]; g {
						m.cover["unset-absent-with-global"]++
					}
					if m.inTry > 0 {
						m.bad("a failing !set inside try")
					}
				}
			}
		case "read":
			if v, ok := fr[n.N]; ok && !m.d.isGlobal(n.N) {
				if _, g := m.global[n.N]; g {
					m.cover["local-shadows-global"]++
				}
				m.line(fmt.Sprintf("r%d=%s", n.K, v), "local")
			} else if n.N == m.d.shared && m.mode != "exact" {
				m.sharedRead(n.K)
			} else if v, ok := m.global[n.N]; ok {
				m.cover["global-read"]++
				m.line(fmt.Sprintf("r%d=%s", n.K, v), "global")
			} else {
				m.fail(n.K)
			}
		case "gread":
			_, local := fr[n.N]
			switch {
			case n.Op == "plain" && local:
				m.line(fmt.Sprintf("r%d=%s", n.K, fr[n.N]), "local")
			case n.N == m.d.shared && m.mode != "exact":
				m.sharedRead(n.K)
			default:
				v, ok := m.global[n.N]
				switch {
				case ok:
					if local {
						m.cover["global-read-past-local"]++
					}
					m.line(fmt.Sprintf("r%d=%s", n.K, v), "global")
				case n.Op == "plain":
					m.fail(n.K)
				default:
					m.bad("$GLOBAL." + n.N + " read while undefined (the statement does not say what that gives)")
				}
			}
		case "call":
			if n.K < 1 || n.K > len(m.w.Funcs) {
				m.bad("call of an undefined function")
				return
			}
			m.cover["call"]++
			m.block(m.w.Funcs[n.K-1], map[string]string{})
		case "if", "switch":
			if n.Op == "true" {
				m.block(n.Kids, fr)
			} else {
				m.block(n.Else, fr)
			}
		case "foreach":
			for i := 1; i <= n.K; i++ {
				if !m.d.cfg {
					fr[n.N] = strconv.Itoa(i) // the loop variable is a variable of the function
				}
				m.block(n.Kids, fr)
			}
		case "try":
			m.inTry++
			m.block(n.Kids, fr)
			m.inTry--
		case "sub":
			m.block(n.Kids, fr)
			m.line(fmt.Sprintf("s%d", n.K), "marker")
		}
	}
}

// scExpect: the expectation for a whole program, one model thread per id
type scExpect struct {
	threads map[string]*scModel // "" for the sequential class; "m" + call ids for the concurrent class
	ids     []string
	init    string // value of the shared name when the calls start
	invalid string
	expErr  int
	tolErr  int
	cover   map[string]int
}

func scModelRun(d *scDialect, w *scW) *scExpect {
	x := &scExpect{threads: map[string]*scModel{}, cover: map[string]int{}}
	global := map[string]string{}
	if d.cfg {
		for _, nm := range d.names {
			global[nm] = d.defs[nm]
		}
		for _, s := range w.Sess {
			global[s[0]] = s[1]
		}
	}
	newThread := func(id, mode string) *scModel {
		return &scModel{d: d, w: w, global: global, id: id, mode: mode, cover: x.cover}
	}
	finish := func(m *scModel) {
		if x.invalid == "" {
			x.invalid = m.invalid
		}
		x.expErr += m.expErr
		x.tolErr += m.tolErr
	}
	if !w.Conc {
		m := newThread("", "exact")
		m.block(w.Main, map[string]string{})
		m.line("end", "marker")
		finish(m)
		x.threads[""] = m
		x.ids = []string{""}
		return x
	}
	collect := func() *scExpect {
		x.invalid, x.expErr, x.tolErr = "", 0, 0
		for _, id := range x.ids {
			finish(x.threads[id])
		}
		return x
	}
	m := newThread("m", "exact")
	frame := map[string]string{}
	m.block(w.Main, frame)
	x.threads["m"] = m
	x.ids = []string{"m"}
	var ok bool
	if x.init, ok = global[d.shared]; !ok {
		m.bad("the shared global is undefined when the calls start")
	}
	if len(w.Funcs) == 0 && len(w.Bg)+len(w.Pipe) > 0 {
		m.bad("no function to call")
		return collect()
	}
	seen := map[string]bool{"m": true}
	for _, id := range append(append([]string{}, w.Pipe...), w.Bg...) {
		if seen[id] || id == "" {
			m.bad("duplicate call id")
			return collect()
		}
		seen[id] = true
		// every call starts from the tables the harness block left: the calls do not change any
		// exactly-read global (only the shared name is written by functions of this class)
		t := newThread(id, "call")
		t.block(w.Funcs[0], map[string]string{})
		x.threads[id] = t
		x.ids = append(x.ids, id)
		x.cover["conc-call"]++
	}
	m.mode = "post"
	m.block(w.Post, frame)
	m.line("end", "marker")
	return collect()
}

// scValid: "" when the program stays inside what the statement describes and the generator's discipline
func scValid(d *scDialect, w *scW) string {
	var walk func(nodes []snode, fn int) string
	walk = func(nodes []snode, fn int) string {
		for i := range nodes {
			n := &nodes[i]
			switch n.T {
			case "call":
				if n.K <= fn || n.K > len(w.Funcs) {
					return "call out of order"
				}
				if w.Conc && fn == 0 {
					return "the harness block of the concurrent class calls only through bg / the pipeline"
				}
			case "gset":
				if w.Conc && fn > 0 && n.N != d.shared {
					return "concurrent calls write only the shared global"
				}
			case "gread":
				if n.Op == "plain" && n.N != d.shared {
					return "plain global read of a local name"
				}
			case "if", "switch", "foreach", "try", "sub":
				if len(n.Kids) == 0 {
					return "empty body"
				}
				if n.T == "switch" && n.Op != "true" && len(n.Else) == 0 {
					return "switch without a matching case (its exit number is not this property's subject)"
				}
				if n.T == "foreach" && (n.K < 1 || n.N == "") {
					return "foreach"
				}
			}
			if s := walk(n.Kids, fn); s != "" {
				return s
			}
			if s := walk(n.Else, fn); s != "" {
				return s
			}
		}
		return ""
	}
	if s := walk(w.Main, 0); s != "" {
		return s
	}
	if s := walk(w.Post, 0); s != "" {
		return s
	}
	for _, n := range w.Post {
		if n.T != "read" && n.T != "gread" {
			return "only reads after the calls"
		}
	}
	for i := range w.Funcs {
		if s := walk(w.Funcs[i], i+1); s != "" {
			return s
		}
	}
	if !w.Conc && (len(w.Bg) > 0 || len(w.Pipe) > 0 || len(w.Post) > 0) {
		return "sequential class with calls"
	}
	if len(w.Bg) > 4 {
		return "too many bg calls"
	}
	subs := false
	var find func(nodes []snode)
	find = func(nodes []snode) {
		for i := range nodes {
			if nodes[i].T == "sub" || (nodes[i].T == "read" && nodes[i].Op == "sub") {
				subs = true
			}
			find(nodes[i].Kids)
			find(nodes[i].Else)
		}
	}
	find(w.Main)
	find(w.Post)
	for _, f := range w.Funcs {
		find(f)
	}
	for _, l := range w.Limits {
		if subs && l != 0 {
			return "buffer limit with a sub-shell: nobody drains a sub-shell's capture stream until it ends"
		}
	}
	return scModelRun(d, w).invalid
}

// ---------------------------------------------------------------- run + oracle

var scGlobalNames = []string{"x", "y", "z", "g", "w1", "w2", "w3", "w4", "i"}

// scReset: process-global murex state a program can touch goes back to its initial value
func scReset(d *scDialect, w *scW) {
	for _, nm := range scGlobalNames {
		lang.GlobalVariables.Unset(nm)
		lang.ShellProcess.Variables.Unset(nm) // the shell's own table: only a broken fork could have put something there
	}
	if d.cfg {
		for _, nm := range d.names {
			lang.ShellProcess.Config.Default("mxsim", nm, nil)
		}
		if w != nil {
			for _, s := range w.Sess {
				lang.ShellProcess.Config.Set("mxsim", s[0], s[1], nil)
			}
		}
	}
}

func scSplit(s string) []string {
	s = strings.TrimRight(s, "\n")
	if s == "" {
		return nil
	}
	return strings.Split(s, "\n")
}

// scCompare: one thread's observed lines against its expectation. Returns the values seen at shared reads.
func scCompare(m *scModel, got []string) (shared map[int]string, clause, detail string) {
	shared = map[int]string{}
	for i, want := range m.out {
		if i >= len(got) {
			return nil, "output-missing", fmt.Sprintf("line %d: expected %q, the output of this thread ends before it", i+1, want)
		}
		g := got[i]
		if strings.HasSuffix(want, "\x00") {
			p := strings.TrimSuffix(want, "\x00")
			if !strings.HasPrefix(g, p) {
				return nil, "output-sequence", fmt.Sprintf("line %d: expected %q<value>, got %q", i+1, p, g)
			}
			shared[i] = strings.TrimPrefix(g, p)
			continue
		}
		if g == want {
			continue
		}
		// same tag? then it is the read itself that is wrong
		wt, gt := scTag(m.id, want), scTag(m.id, g)
		if wt != "" && wt == gt {
			gotVal := strings.HasPrefix(strings.TrimPrefix(g, scPre(m.id)), "r")
			switch {
			case m.src[i] == "undef" && gotVal:
				return nil, "undefined-read-returned-value", fmt.Sprintf("read %s: no binding is visible here, murex printed %q", wt, g)
			case m.src[i] == "local":
				return nil, "local-read-mismatch", fmt.Sprintf("read %s: expected this scope's own value %q, got %q", wt, want, g)
			case m.src[i] == "global":
				return nil, "global-read-mismatch", fmt.Sprintf("read %s: expected the shared value %q, got %q", wt, want, g)
			}
		}
		return nil, "output-sequence", fmt.Sprintf("line %d: expected %q, got %q", i+1, want, g)
	}
	if len(got) > len(m.out) {
		return nil, "output-extra", fmt.Sprintf("unexpected extra line %q", got[len(m.out)])
	}
	return shared, "", ""
}

func scPre(id string) string {
	if id == "" {
		return ""
	}
	return id + " "
}

// scTag: the numeric tag of a read line ("r5=..." and "e5" both give "5")
func scTag(id, line string) string {
	line = strings.TrimPrefix(line, scPre(id))
	if len(line) < 2 || (line[0] != 'r' && line[0] != 'e') {
		return ""
	}
	j := 1
	for j < len(line) && line[j] >= '0' && line[j] <= '9' {
		j++
	}
	if j == 1 {
		return ""
	}
	return line[1:j]
}

// scRegister: rules a single shared register obeys, whatever the interleaving.
//  1. a read returns the initial value or a value some call wrote (never a foreign or torn one);
//  2. a thread that has itself written w does not afterwards read a value that can only be older than w:
//     the initial value (when nobody writes it again) or a value written only by this thread before w;
//     a thread that has seen any other value does not read the never-rewritten initial value again;
//  3. after every call has ended the value is the last write of some call (or the initial value when nobody wrote).
func scRegister(x *scExpect, seen map[string]map[int]string) (clause, detail string) {
	type wr struct {
		id  string
		idx int
	}
	writes := map[string][]wr{}
	lastOf := map[string]bool{}
	nWrites := 0
	for _, id := range x.ids {
		if id == "m" {
			continue
		}
		t := x.threads[id]
		last := ""
		has := false
		for i, ev := range t.ev {
			if ev.W {
				writes[ev.Val] = append(writes[ev.Val], wr{id, i})
				last, has = ev.Val, true
				nWrites++
			}
		}
		if has {
			lastOf[last] = true
		}
	}
	for _, id := range x.ids {
		t := x.threads[id]
		if id == "m" {
			for _, ev := range t.ev {
				if ev.W {
					continue
				}
				u := seen[id][ev.Line]
				if nWrites == 0 && u != x.init {
					return "global-final-value", fmt.Sprintf("no call wrote the shared value, it was %q before the calls and reads %q afterwards", x.init, u)
				}
				if nWrites > 0 && !lastOf[u] {
					return "global-final-value", fmt.Sprintf("after every call has ended the shared value reads %q, which is not the last write of any call (initial %q)", u, x.init)
				}
			}
			continue
		}
		ownLast := -1
		moved := false // this thread has seen a value other than the initial one
		for i, ev := range t.ev {
			if ev.W {
				ownLast = i
				if ev.Val != x.init {
					moved = true
				}
				continue
			}
			u := seen[id][ev.Line]
			ws, written := writes[u]
			if !written && u != x.init {
				return "global-foreign-value", fmt.Sprintf("call %s read %q from the shared name; nobody wrote that (initial %q)", id, u, x.init)
			}
			if !written && u == x.init && (ownLast >= 0 || moved) {
				return "global-stale-read", fmt.Sprintf("call %s read the initial value %q again after it had been replaced", id, u)
			}
			if written && ownLast >= 0 && u != t.ev[ownLast].Val && u != x.init {
				onlyOlder := true
				for _, w := range ws {
					if w.id != id || w.idx > ownLast {
						onlyOlder = false
					}
				}
				if onlyOlder {
					return "global-stale-read", fmt.Sprintf("call %s read %q, a value only it wrote and has itself replaced with %q", id, u, t.ev[ownLast].Val)
				}
			}
			if u != x.init {
				moved = true
			}
		}
	}
	return "", ""
}

func runScope(d *scDialect, c *Case, e *Env) Outcome {
	var w scW
	if err := json.Unmarshal(c.W, &w); err != nil {
		return Outcome{Verdict: "inconclusive", Clause: "bad-case", Detail: err.Error()}
	}
	if why := scValid(d, &w); why != "" {
		return Outcome{Verdict: "inconclusive", Clause: "bad-case", Detail: why}
	}
	src := w.source(d)
	x := scModelRun(d, &w)
	for _, k := range sortedKeys(x.cover) {
		for i := 0; i < x.cover[k]; i++ {
			e.Probe(k)
		}
	}
	sess := ""
	if len(w.Sess) > 0 {
		sess = fmt.Sprintf("session-level settings made before the program: %v\n", w.Sess)
	}
	for k := 0; k < w.K; k++ {
		sc := c.Sched
		sc.Seed = mix(c.Sched.Seed, uint64(k))
		if k > 0 {
			sc.Strategy = strategies[int(sc.Seed%uint64(len(strategies)))]
		}
		lim := 0
		if k < len(w.Limits) {
			lim = w.Limits[k]
		}
		restore := setPipeLimit(lim)
		var got blockResult
		res := e.Bubble(sc, func() {
			scReset(d, &w)
			got = execBlock(src, "murex/mxsim")
			scReset(d, nil)
		})
		restore()
		if res.Panic != "" {
			return Outcome{Verdict: "panic", Clause: "panic", Detail: res.Panic}
		}
		desc := fmt.Sprintf("%sschedule %d (%s, seed %d, buffer limit %d)", sess, k, sc.Strategy, sc.Seed, lim)
		if ct := crashText(got.Out + got.Err + got.ExecErr); ct != "" {
			return violation("internal-panic", "program:\n%s\n%s reported: %s", src, desc, ct)
		}
		lines := scSplit(got.Out)
		report := func(clause, detail string) Outcome {
			return violation(clause, "%s\nprogram:\n%s\n%s\nstdout: %q\nstderr: %q", detail, src, desc, lines, got.Err)
		}
		if !w.Conc {
			if _, cl, det := scCompare(x.threads[""], lines); cl != "" {
				return report(cl, det)
			}
		} else {
			by := map[string][]string{}
			p0 := 0
			for _, l := range lines {
				if l == "p0" {
					p0++
					continue
				}
				id, _, _ := strings.Cut(l, " ")
				if x.threads[id] == nil {
					return report("conc-foreign-line", fmt.Sprintf("stdout line %q belongs to no call of the program", l))
				}
				by[id] = append(by[id], l)
			}
			want0 := 0
			if len(w.Pipe) > 0 {
				want0 = 1
			}
			if p0 != want0 {
				return report("conc-output", fmt.Sprintf("the pipeline's first line p0 arrived %d times, expected %d", p0, want0))
			}
			seen := map[string]map[int]string{}
			for _, id := range x.ids {
				sh, cl, det := scCompare(x.threads[id], by[id])
				if cl != "" {
					switch {
					case id == "m" && (cl == "local-read-mismatch" || cl == "undefined-read-returned-value"):
						cl = "caller-variable-changed"
					case id == "m":
					default:
						cl = "conc-" + cl
					}
					return report(cl, "thread "+id+": "+det)
				}
				seen[id] = sh
			}
			if cl, det := scRegister(x, seen); cl != "" {
				return report(cl, det)
			}
		}
		if got.Exit != 0 {
			return report("block-exit", fmt.Sprintf("exit number %d after the final `out`", got.Exit))
		}
		if x.expErr > 0 && got.Err == "" {
			return report("missing-error", fmt.Sprintf("%d reads of undefined names, nothing on stderr", x.expErr))
		}
		if x.expErr == 0 && x.tolErr == 0 && got.Err != "" {
			return report("unexpected-stderr", "no operation of the program fails")
		}
	}
	return okOutcome()
}

// ---------------------------------------------------------------- shrinking

func scShrinkNodes(nodes []snode) [][]snode {
	var out [][]snode
	for i := range nodes {
		out = append(out, append(append([]snode{}, nodes[:i]...), nodes[i+1:]...))
	}
	for i, n := range nodes {
		splice := func(repl []snode) {
			v := append([]snode{}, nodes[:i]...)
			v = append(v, repl...)
			out = append(out, append(v, nodes[i+1:]...))
		}
		switch n.T {
		case "if", "switch":
			if n.Op == "true" {
				splice(n.Kids)
			} else {
				splice(n.Else)
			}
			if len(n.Else) > 0 && n.Op == "true" {
				nn := n
				nn.Else = nil
				splice([]snode{nn})
			}
		case "try", "sub":
			splice(n.Kids)
		case "foreach":
			if n.K > 1 {
				nn := n
				nn.K--
				splice([]snode{nn})
			}
		}
		for _, k := range scShrinkNodes(n.Kids) {
			nn := n
			nn.Kids = k
			splice([]snode{nn})
		}
		for _, k := range scShrinkNodes(n.Else) {
			nn := n
			nn.Else = k
			splice([]snode{nn})
		}
	}
	return out
}

func scRenumber(nodes []snode, from int) []snode {
	out := append([]snode{}, nodes...)
	for i := range out {
		if out[i].T == "call" && out[i].K > from {
			out[i].K--
		}
		out[i].Kids = scRenumber(out[i].Kids, from)
		out[i].Else = scRenumber(out[i].Else, from)
	}
	return out
}

func scCalls(nodes []snode, k int) bool {
	for i := range nodes {
		if (nodes[i].T == "call" && nodes[i].K == k) || scCalls(nodes[i].Kids, k) || scCalls(nodes[i].Else, k) {
			return true
		}
	}
	return false
}

func shrinkScope(d *scDialect, c *Case) []Case {
	var w scW
	json.Unmarshal(c.W, &w)
	var out []Case
	emit := func(v scW) {
		if scValid(d, &v) != "" {
			return
		}
		out = append(out, Case{Class: c.Class, W: mustJSON(v), Sched: c.Sched})
	}
	// whole calls / functions first
	for i := range w.Bg {
		v := w
		v.Bg = append(append([]string{}, w.Bg[:i]...), w.Bg[i+1:]...)
		emit(v)
	}
	for i := range w.Pipe {
		v := w
		v.Pipe = append(append([]string{}, w.Pipe[:i]...), w.Pipe[i+1:]...)
		emit(v)
	}
	for k := len(w.Funcs); k >= 1; k-- {
		used := scCalls(w.Main, k) || scCalls(w.Post, k)
		for _, f := range w.Funcs {
			used = used || scCalls(f, k)
		}
		if used || (w.Conc && k == 1 && len(w.Bg)+len(w.Pipe) > 0) {
			continue
		}
		v := w
		v.Funcs = nil
		for i, f := range w.Funcs {
			if i != k-1 {
				v.Funcs = append(v.Funcs, scRenumber(f, k))
			}
		}
		v.Main, v.Post = scRenumber(w.Main, k), scRenumber(w.Post, k)
		emit(v)
	}
	if len(w.Sess) > 0 {
		for i := range w.Sess {
			v := w
			v.Sess = append(append([][2]string{}, w.Sess[:i]...), w.Sess[i+1:]...)
			emit(v)
		}
	}
	for _, m := range scShrinkNodes(w.Main) {
		v := w
		v.Main = m
		emit(v)
	}
	for _, m := range scShrinkNodes(w.Post) {
		v := w
		v.Post = m
		emit(v)
	}
	for i := range w.Funcs {
		for _, f := range scShrinkNodes(w.Funcs[i]) {
			v := w
			v.Funcs = append([][]snode{}, w.Funcs...)
			v.Funcs[i] = f
			emit(v)
		}
	}
	if w.K > 1 {
		// one schedule: the one that failed is not known here, so offer each
		for k := 0; k < w.K && k < len(w.Limits); k++ {
			v := w
			v.K = 1
			v.Limits = []int{w.Limits[k]}
			emit(v)
		}
	}
	if w.K == 1 && len(w.Limits) == 1 && w.Limits[0] != 0 {
		v := w
		v.Limits = []int{0}
		emit(v)
	}
	for _, st := range []string{"rr", "pb0"} {
		if c.Sched.Strategy != st {
			v := *c
			v.Sched.Strategy = st
			out = append(out, v)
		}
	}
	return out
}
