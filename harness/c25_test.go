package h

// C25: config values are scoped like variables.
//
// The same program shapes as C11 (the tree, generator, printer, model, oracle and
// shrinker live in c11_test.go; this file is the `config` dialect): `config set mxsim
// <key> <value>`, `config get mxsim <key>` (tagged: `out "r5=${config get ...}"`) and
// `config default mxsim <key>` over one global option (g1) and two non-global ones
// (n1, n2) that the harness defines once per process.
//
// Model, from the statement: a function call gets a fresh overlay over the SESSION
// table (not over its caller's overlay); if / switch / foreach / try / ${ } bodies use
// the overlay of their function; a set of a non-global option writes the overlay, a
// set of the global option writes the session table; `config default` writes the
// declared default into the scope where it runs (the session table for the global
// option); a get looks in the overlay, then in the session table.
//
// "Session level" is the shell's own table. The harness block is itself a function
// scope, so session-level settings are made in Go on lang.ShellProcess.Config before
// the program starts (Case.W "sess") and every option goes back to its default before
// and after every run.

import (
	"github.com/lmorg/murex/config"
	"github.com/lmorg/murex/lang/types"
)

var c25Dialect = &scDialect{cfg: true, names: []string{"g1", "n1", "n2"}, shared: "g1",
	defs: map[string]string{"g1": "dg", "n1": "d1", "n2": "d2"}}

func init() {
	register(&Harness{Name: "c25", Gen: func(r *Rand, tier string) Case { return genScope(c25Dialect, r, tier) },
		Run:    func(c *Case, e *Env) Outcome { return runScope(c25Dialect, c, e) },
		Shrink: func(c *Case) []Case { return shrinkScope(c25Dialect, c) }, Init: initC25})
	propHarness["C25"] = "c25"
}

func initC25(j *Job) {
	initMurex(j)
	for _, nm := range c25Dialect.names {
		config.InitConf.Define("mxsim", nm, config.Properties{
			Description: "mxsim C25 test option " + nm,
			Default:     c25Dialect.defs[nm],
			DataType:    types.String,
			Global:      nm == c25Dialect.shared,
		})
	}
}
