package h

// C30: the cache never returns stale or foreign values (utils/cache, utils/cache/cachedb).
//
// One case = one bubble. 1-3 tasks issue Write/Read/Trim/Clear over 3 namespaces
// and a key alphabet with look-alikes; F-clock = the task itself sleeps on the
// bubble's fake clock (sqlite's unixepoch() is wired to that clock); F-disk =
// the db file is removed / truncated / overwritten between operations.
//
// Oracle (written from the statement): model (ns,key) -> (value, ttl). Values
// are unique per write, so a returned value identifies the write it came from.
// A read more than 1 s before the expiry must return the latest value, more
// than 1 s after it must return nothing, inside the window either. The clock
// can move while an operation is in flight (the scheduler may let time pass at
// any decision), so every comparison uses the clock at the call for "already
// expired" and the clock at the return for "still alive".
//
// Why Trim and Clear run on a goroutine outside the bubble (c30Outside):
//  1. cache.Trim and cache.Clear iterate a Go map of namespaces. The order is
//     random per process and the number of scheduling points per namespace
//     depends on the rows it holds, so executed by a task the decision trace
//     (and with >1 task the interleaving) of one case would differ between two
//     processes, which rule 2 of the guide forbids.
//  2. They hold a sqlite transaction open across a scheduling point (the
//     `for rows.Next()` loop). A task parked there keeps the shared-cache table
//     lock; a Write by another task then waits inside modernc sqlite
//     ((*conn).retry -> sync.Mutex.Lock, sqlite3_unlock_notify). A goroutine
//     blocked on a real mutex is not durably blocked, synctest.Wait never
//     returns and the worker stalls until the watchdog (seen in 3 of 8 seeds of
//     a 2-task experiment). On a real scheduler that wait simply ends when Trim
//     commits; it is a limit of the simulator, not a defect of murex.
// Executed outside the bubble they are one atomic step for the scheduler.
// sqlite still sees the bubble's clock (frozen at the instant of the call); the
// in-memory layer sees the real clock there, i.e. its Trim drops every entry
// (which can only turn an in-memory hit into a db lookup).
//
// Class trimrace covers what that leaves out: cachedb.Trim of ONE namespace (no map order involved) is run
// by a task inside the bubble under the statement seam (c30Drv below): every SQL statement is a scheduling
// point and a task with an open transaction or result set is pinned, which is exactly the exclusion sqlite
// itself enforces, so point 2 cannot arise. Writes of other tasks can then land between two statements of
// a Trim, but not inside its transaction.
//
// The same early return makes a failed Trim/Clear (class disk) stop at a
// namespace that depends on the map order; see genC30 for how the disk class
// keeps that out of the trace.

import (
	"context"
	"database/sql"
	"database/sql/driver"
	"encoding/json"
	"fmt"
	"os"
	"path/filepath"
	"regexp"
	"runtime"
	"sort"
	"strconv"
	"strings"
	"sync/atomic"
	"time"

	"github.com/anishathalye/porcupine"
	"github.com/lmorg/murex/utils/cache"
	"github.com/lmorg/murex/utils/cache/cachedb"
	"github.com/lmorg/murex/utils/simrt"
	"github.com/lmorg/murex/utils/sqlite3"
	"modernc.org/sqlite"
)

type c30Op struct {
	Op   string `json:"op"`             // write | read | trim | trimns | clear | sleep | sleepto | disk | reinit
	NS   int    `json:"ns,omitempty"`   // index into c30NS
	Key  string `json:"key,omitempty"`  // write, read
	ID   int    `json:"id,omitempty"`   // write: unique id, the value is "v<id>" (see VK); sleepto: the write whose expiry is aimed at
	Ms   int64  `json:"ms,omitempty"`   // write: ttl = clock at the call + Ms; sleep: duration; sleepto: offset from that expiry; disk: size parameter
	Kind string `json:"kind,omitempty"` // disk: remove | truncate | garbage | garbage-head
}

type c30W struct {
	Tasks  [][]c30Op `json:"tasks"`
	Legacy bool      `json:"legacy,omitempty"` // the db file exists already, with the tables as murex created them up to now (key STRING, value STRING): an upgrade
	VK     string    `json:"vk,omitempty"`     // kind of every value of the case: "" the string "v<id>" | "u64" the number 2^63+id | "f" the number id+0.5
	EvNS   uint32    `json:"evns,omitempty"`   // non-zero: the namespaces are two user-event namespaces that differ in one non-word character only
	Final  []c30Op   `json:"final,omitempty"`  // run by one more task once every other task has finished (a later session: reinit, reads)
	Seam   bool      `json:"seam,omitempty"`   // every SQL statement is a scheduling point; a task with an open transaction or result set is pinned
}

// c30Namespace: the namespace an operation's index stands for. With EvNS the case uses two per-event
// namespaces of the kind murex builds as "preview_event:<user event name>", differing in non-word
// characters only. The names are fixed and initialised once per process (initC30), so that every process
// has the same set of namespaces (Trim and Clear walk all of them).
var c30EvNS = []string{cache.PREVIEW_EVENT + ":git-log", cache.PREVIEW_EVENT + ":git_log"}

func c30Namespace(w *c30W, i int) string {
	if w.EvNS != 0 {
		return c30EvNS[i%2]
	}
	return c30NS[i%len(c30NS)]
}

var c30NS = []string{cache.MAN_SUMMARY, cache.HINT_SUMMARY, cache.MAN_FLAGS}

// look-alikes first: these are distinct keys for the statement
var c30Keys = []string{"1", "1.0", "01", "1e0", "Alpha", "alpha", "", "x y", "beta", "k1"}

func init() {
	register(&Harness{Name: "c30", Gen: genC30, Run: runC30, Shrink: shrinkC30, Init: initC30})
	propHarness["C30"] = "c30"
}

// ---------------------------------------------------------------- process set-up

var (
	c30Frozen int64 // unix seconds handed to sqlite while an operation runs outside the bubble
	c30Req    chan func()
	c30Done   chan struct{}
	c30Seq    int
	c30Cur    atomic.Pointer[c30Watch] // the case whose bubble is running, for the wall-clock watchdog
	c30Tmpl   []byte // a db file as InitCache of the tree under test creates it
	c30Legacy []byte // a db file whose tables are declared as the pinned tree declares them (key STRING, value STRING)
)

func initC30(j *Job) {
	// sqlite's clock = the bubble's clock (DESIGN 2.10). Applies to connections opened from now on.
	sqlite.MustRegisterScalarFunction("unixepoch", 0, func(ctx *sqlite.FunctionContext, args []driver.Value) (driver.Value, error) {
		if t := time.Now(); t.Year() < 2010 { // called by a goroutine of the bubble (fake clock starts in 2000)
			return t.Unix(), nil
		}
		if f := atomic.LoadInt64(&c30Frozen); f != 0 {
			return f, nil
		}
		return time.Now().Unix(), nil
	})
	// the statement-level seam (c30Drv): murex's dbConnect opens its connections through a wrapper of the
	// same driver (mxinstr R7 made the driver name settable)
	if db, err := sql.Open(sqlite3.DriverName(), "file::memory:"); err == nil {
		sql.Register("sqlite-mxsim", &c30Drv{inner: db.Driver()})
		db.Close()
		sqlite3.SimSetDriverName("sqlite-mxsim")
	}
	// One task runs at a time, so extra processors only add hand-off cost; every sqlite connection maps and
	// unmaps memory, which is far cheaper in a process that runs on one CPU (measured: 3.6x more cases per
	// second with 16 workers). The driver's determinism re-runs set GOMAXPROCS themselves and are left alone.
	if os.Getenv("GOMAXPROCS") == "" {
		runtime.GOMAXPROCS(1)
	}
	// the empty database, made once by the code under test; a case starts from a copy (saves 8 CREATE TABLE
	// transactions per case), InitCache still runs per case to replace the in-memory maps
	tp := filepath.Join(j.Tmp, "c30-template.db")
	cache.SetPath(tp)
	cache.InitCache()
	// murex reads a per-event namespace before it ever writes it, which is what creates it
	var none string
	cache.Read(c30EvNS[0], "\x00", &none)
	cache.Read(c30EvNS[1], "\x00", &none)
	c30Tmpl, _ = os.ReadFile(tp)
	lp := filepath.Join(j.Tmp, "c30-legacy.db")
	if db, err := sql.Open(sqlite3.DriverName(), "file:"+lp); err == nil {
		for _, ns := range cache.ListNamespaces() {
			db.Exec(fmt.Sprintf("CREATE TABLE '%s' (key STRING PRIMARY KEY, value STRING, ttl DATETIME KEY);", ns))
		}
		db.Close()
		c30Legacy, _ = os.ReadFile(lp)
		os.Remove(lp)
	}
	os.Remove(tp)
	// channels and goroutine created outside any bubble
	c30Req = make(chan func())
	c30Done = make(chan struct{})
	go func() {
		for f := range c30Req {
			f()
			c30Done <- struct{}{}
		}
	}()
	if j.Mode == "case" {
		c30StallWall = 8 * time.Second
	}
	go c30Watchdog()
}

// c30Watch: what the watchdog needs to report a cache call that never returns.
// Such a call is blocked inside sqlite on a real mutex (seen: a Write waiting
// for the table lock of a transaction that a failed Trim/Clear never rolled
// back). That is not a durable block, so synctest.Wait never returns, the
// scheduler cannot reach a verdict and without this the only trace would be
// the driver's 10-minute watchdog (INFRA). The hang is real and permanent; wall
// time only decides when it is noticed. Same exit protocol as the core uses
// for deadlock/hang verdicts (a stuck bubble cannot be abandoned).
type c30Watch struct {
	e        *Env
	progress atomic.Int64
	inflight atomic.Pointer[string]
	hist     *[]c30Ev
}

// 20 s while searching (a false alarm there would still have to reproduce alone in a fresh process to be
// reported); 8 s when one given case is run (confirmation, shrinking, replay), so that shrinking a real
// hang fits more than a handful of candidates into the driver's 90 s budget. Operations take milliseconds.
var c30StallWall = 20 * time.Second

var c30Args = regexp.MustCompile(`\([^()]*\)$`) // argument list of a stack frame

func c30Watchdog() {
	var last *c30Watch
	var seen int64
	var since time.Time
	for {
		time.Sleep(500 * time.Millisecond)
		w := c30Cur.Load()
		if w == nil {
			last = nil
			continue
		}
		if p := w.progress.Load(); w != last || p != seen {
			last, seen, since = w, p, time.Now()
			continue
		}
		if time.Since(since) < c30StallWall {
			continue
		}
		op := "?"
		if s := w.inflight.Load(); s != nil {
			op = *s
		}
		buf := make([]byte, 1<<20)
		buf = buf[:runtime.Stack(buf, true)]
		var stacks []string
		for _, g := range strings.Split(string(buf), "\n\n") {
			if strings.Contains(g, "utils/cache") && !strings.Contains(g, "c30Watchdog") {
				var keep []string
				for _, l := range strings.Split(g, "\n") {
					if !strings.HasPrefix(l, "\t") && !strings.HasPrefix(l, "runtime.") && !strings.HasPrefix(l, "internal/") && !strings.HasPrefix(l, "created by") {
						keep = append(keep, c30Args.ReplaceAllString(l, ""))
					}
				}
				stacks = append(stacks, strings.Join(keep, "\n"))
			}
		}
		r := w.e.rec
		r.Verdict, r.Clause = "hang", "cache-call-never-returns"
		r.Detail = fmt.Sprintf("%s did not return within %v of wall time and no other task can run: the call is blocked outside the simulator's control\n%s\nhistory so far:\n%s",
			op, c30StallWall, c30Head(strings.Join(stacks, "\n\n"), 1800), c30Render(*w.hist))
		if len(r.Detail) > 4000 {
			r.Detail = r.Detail[:4000] + "…"
		}
		r.Case = w.e.c
		flush(w.e.job, r)
		os.Exit(3)
	}
}

func c30Head(s string, n int) string {
	if len(s) > n {
		return s[:n] + "…"
	}
	return s
}

// c30Drv: the statement-level seam. It hands every call to modernc's driver unchanged. While c30Seam is on
// (cases that run cachedb.Trim inside the bubble) every statement is a scheduling point, and a task that has
// a transaction or a result set open is pinned: with the shared cache another connection that touches the
// same table would wait inside sqlite on a real mutex until the transaction ends (header, point 2), so on
// a real scheduler nobody else could have made progress on that table either. What remains visible to the
// scheduler is exactly the interleaving sqlite allows: statement by statement outside transactions.
type c30Drv struct{ inner driver.Driver }

var c30Seam atomic.Bool

func (d *c30Drv) Open(name string) (driver.Conn, error) {
	c, err := d.inner.Open(name)
	if err != nil {
		return nil, err
	}
	return &c30Conn{c}, nil
}

type c30Conn struct{ driver.Conn }

func c30Point(site string) {
	if c30Seam.Load() {
		simrt.Yield(site)
	}
}

func c30Pin() func() {
	if c30Seam.Load() {
		return simrt.Pin()
	}
	return func() {}
}

func (c *c30Conn) BeginTx(ctx context.Context, opts driver.TxOptions) (driver.Tx, error) {
	c30Point("sql-begin")
	tx, err := c.Conn.(driver.ConnBeginTx).BeginTx(ctx, opts)
	if err != nil {
		return nil, err
	}
	return &c30Tx{tx, c30Pin()}, nil
}

func (c *c30Conn) PrepareContext(ctx context.Context, q string) (driver.Stmt, error) {
	return c.Conn.(driver.ConnPrepareContext).PrepareContext(ctx, q)
}

func (c *c30Conn) ExecContext(ctx context.Context, q string, args []driver.NamedValue) (driver.Result, error) {
	c30Point("sql-exec")
	return c.Conn.(driver.ExecerContext).ExecContext(ctx, q, args)
}

func (c *c30Conn) QueryContext(ctx context.Context, q string, args []driver.NamedValue) (driver.Rows, error) {
	c30Point("sql-query")
	rows, err := c.Conn.(driver.QueryerContext).QueryContext(ctx, q, args)
	if err != nil {
		return nil, err
	}
	return &c30Rows{rows, c30Pin()}, nil
}

func (c *c30Conn) Ping(ctx context.Context) error {
	if p, ok := c.Conn.(driver.Pinger); ok {
		return p.Ping(ctx)
	}
	return nil
}

func (c *c30Conn) ResetSession(ctx context.Context) error {
	if p, ok := c.Conn.(driver.SessionResetter); ok {
		return p.ResetSession(ctx)
	}
	return nil
}

func (c *c30Conn) IsValid() bool {
	if p, ok := c.Conn.(driver.Validator); ok {
		return p.IsValid()
	}
	return true
}

type c30Tx struct {
	driver.Tx
	unpin func()
}

func (t *c30Tx) Commit() error   { err := t.Tx.Commit(); t.unpin(); return err }
func (t *c30Tx) Rollback() error { err := t.Tx.Rollback(); t.unpin(); return err }

type c30Rows struct {
	driver.Rows
	unpin func()
}

func (r *c30Rows) Close() error { err := r.Rows.Close(); r.unpin(); return err }

// c30Outside runs f to completion on the goroutine outside the bubble. The
// calling task is blocked on a channel that does not belong to the bubble, so
// for synctest it is simply running: no decision is taken and the fake clock
// cannot move meanwhile.
func c30Outside(f func()) {
	atomic.StoreInt64(&c30Frozen, time.Now().Unix())
	c30Req <- f
	<-c30Done
}

// ---------------------------------------------------------------- generator

var c30TTL = [][]int64{
	{-3660000, -600000, -2000, -1500, -1001, -1000},                  // past
	{-999, -500, -1, 0, 1, 500, 999, 1000, 1001, 1500, 2000, 2500},   // around now
	{3000, 10000, 59000, 60000, 90000, 600000},                       // seconds..minutes
	{3480000, 3539000, 3540000, 3541000, 3600000, 3660000, 7200000},  // around the 59 min mark
	{86400000, 172800000, 2592000000, 15552000000},                   // days, months
}

var c30Sleep = []int64{1, 500, 1000, 1000, 1000, 59000, 59000, 600000, 600000, 3660000, 3660000, 90000000, 259200000}
var c30Aim = []int64{-2000, -1001, -1000, -1, 0, 1, 1000, 1001, 2000}

func genC30(r *Rand, tier string) Case {
	class := "seq"
	switch x := r.Intn(20); {
	case x < 9:
		class = "conc"
	case x < 13:
		class = "disk"
	case x >= 17:
		return genC30TrimRace(r)
	}
	nt := 1
	if class == "conc" {
		nt = 2 + r.Intn(2)
	}
	// a small working set so that reads meet writes; look-alike groups are kept together
	var keys []string
	switch r.Intn(5) {
	case 0, 1:
		keys = append(keys, c30Keys[:4]...)
		keys = keys[r.Intn(2) : 2+r.Intn(3)]
	case 2:
		keys = []string{"Alpha", "alpha", ""}
	}
	for len(keys) < 2+r.Intn(3) {
		keys = append(keys, r.Pick(c30Keys))
	}
	nns := 1 + r.Intn(3)
	total := 10 + r.Intn(31)
	if class == "conc" {
		total = 8 + r.Intn(13) // data operations <= 20: the history goes through porcupine
	}
	var w c30W
	w.Tasks = make([][]c30Op, nt)
	if r.Intn(12) == 0 {
		w.VK = []string{"u64", "f"}[r.Intn(2)]
	}
	w.Legacy = r.Intn(6) == 0
	id := 0
	var aim []int // writes whose expiry a later clock jump may aim at
	var written []c30Op
	afterFault := false
	data := 0
	for n := 0; n < total; n++ {
		ti := r.Intn(nt)
		var op c30Op
		x := r.Intn(100)
		switch {
		case x < 30 || id == 0:
			id++
			cat := c30TTL[r.Intn(len(c30TTL))]
			if class == "disk" {
				// Trim/Clear stop at the first namespace whose table fails, and the namespaces come in Go's random
				// map order: after a fault the in-memory layer of an unpredictable set of namespaces keeps its
				// entries. Entries with short TTLs never enter that layer, which keeps the run a function of the case.
				cat = c30TTL[r.Intn(3)]
			}
			op = c30Op{Op: "write", NS: r.Intn(nns), Key: r.Pick(keys), ID: id, Ms: cat[r.Intn(len(cat))]}
			written = append(written, op)
			if op.Ms <= 172800000 { // the months-long TTLs are "never expires" for a history
				aim = append(aim, id)
			}
			data++
		case x < 70:
			op = c30Op{Op: "read", NS: r.Intn(nns), Key: r.Pick(keys)}
			if len(written) > 0 && r.Intn(3) > 0 { // mostly where something was written
				wr := written[r.Intn(len(written))]
				op.NS, op.Key = wr.NS, wr.Key
			}
			data++
		case x < 81:
			op = c30Op{Op: "sleep", Ms: c30Sleep[r.Intn(len(c30Sleep))]}
		case x < 93:
			if len(aim) > 0 {
				op = c30Op{Op: "sleepto", ID: aim[r.Intn(len(aim))], Ms: c30Aim[r.Intn(len(c30Aim))]}
			} else {
				op = c30Op{Op: "sleep", Ms: c30Sleep[r.Intn(len(c30Sleep))]}
			}
		case x < 97:
			op = c30Op{Op: "trim"}
			data++
		default:
			op = c30Op{Op: "clear"}
			data++
		}
		if class == "disk" {
			switch y := r.Intn(100); {
			case afterFault && y < 50, y < 5:
				op = c30Op{Op: "reinit"} // a new session over whatever is on the disk now
				afterFault = false
			case y < 14:
				kind := []string{"remove", "remove", "remove", "truncate", "truncate", "truncate", "garbage", "garbage-head"}[r.Intn(8)]
				op = c30Op{Op: "disk", Kind: kind, Ms: int64(r.Intn(3)) * int64(r.Intn(40000))}
				afterFault = true
			}
		}
		w.Tasks[ti] = append(w.Tasks[ti], op)
		if class == "conc" && data >= 20 {
			break
		}
	}
	if class != "disk" && r.Intn(5) == 0 {
		w.EvNS = 1
		for t := range w.Tasks {
			for i := range w.Tasks[t] {
				w.Tasks[t][i].NS %= 2
			}
		}
	}
	sc := defaultSched(r, 3*total+10, 20000, 0) // observed: about 3 decisions per operation, 87 per 3-day jump; budget >= 20x the largest ok run
	if class == "conc" && r.Intn(3) == 0 {
		sc.JumpProb = 0.01 // scheduler-driven clock jumps (1 us .. 10 s) between any two decisions
	}
	return Case{Class: class, W: mustJSON(w), Sched: sc}
}

// genC30TrimRace: Trim of one namespace runs inside the schedule (statement seam) while other tasks refresh
// keys whose entries have expired - what every completion lookup does on a stale entry. A later session
// (Final: the in-memory layer is dropped) reads the keys back.
func genC30TrimRace(r *Rand) Case {
	var w c30W
	w.Seam = true
	nk := 1 + r.Intn(3)
	keys := append([]string{}, c30Keys[r.Intn(4):][:nk]...)
	id := 0
	var t0, t1 []c30Op
	var sleepNeeded bool
	for _, k := range keys { // expired entries
		id++
		ms := []int64{-3660000, -2000, -1001, 400, 900}[r.Intn(5)]
		if ms > 0 {
			sleepNeeded = true
		}
		t0 = append(t0, c30Op{Op: "write", Key: k, ID: id, Ms: ms})
	}
	if sleepNeeded || r.Intn(3) == 0 {
		t0 = append(t0, c30Op{Op: "sleep", Ms: []int64{2000, 3000, 59000}[r.Intn(3)]})
	}
	// the refreshing task does not start before the stale entries are there (mostly)
	nt := 2 + r.Intn(2)
	w.Tasks = make([][]c30Op, nt)
	for ti := 1; ti < nt; ti++ {
		t1 = nil
		if r.Intn(3) > 0 {
			t1 = append(t1, c30Op{Op: "read", Key: r.Pick(keys)})
		}
		for n := 1 + r.Intn(3); n > 0; n-- {
			switch r.Intn(5) {
			case 0:
				t1 = append(t1, c30Op{Op: "read", Key: r.Pick(keys)})
			case 1:
				t1 = append(t1, c30Op{Op: "trimns"})
			default:
				id++
				t1 = append(t1, c30Op{Op: "write", Key: r.Pick(keys), ID: id, Ms: []int64{60000, 3600000, 86400000}[r.Intn(3)]})
			}
		}
		w.Tasks[ti] = t1
	}
	for n := 1 + r.Intn(2); n > 0; n-- {
		t0 = append(t0, c30Op{Op: "trimns"})
		if r.Intn(3) == 0 {
			t0 = append(t0, c30Op{Op: "read", Key: r.Pick(keys)})
		}
	}
	w.Tasks[0] = t0
	if sleepNeeded {
		// the refreshers wait for the entries to expire, too
		for ti := 1; ti < nt; ti++ {
			w.Tasks[ti] = append([]c30Op{{Op: "sleep", Ms: 1900}}, w.Tasks[ti]...)
		}
	}
	if r.Intn(4) > 0 {
		w.Final = append(w.Final, c30Op{Op: "reinit"})
	}
	for _, k := range keys {
		w.Final = append(w.Final, c30Op{Op: "read", Key: k})
	}
	sc := defaultSched(r, 60, 20000, 0)
	return Case{Class: "trimrace", W: mustJSON(w), Sched: sc}
}

// ---------------------------------------------------------------- run

type c30Ev struct {
	Task, Idx int
	Op        c30Op
	Call, Ret int64     // simrt stamps
	T0, T1    time.Time // bubble clock at the call and at the return
	TTL       time.Time // write
	Val       string    // write: the value, rendered as text
	OK        bool      // read
	Got       string    // read: the value, rendered as text
	Err       string    // trim, clear
	Skip      bool      // sleepto without target
}

func c30Val(vk string, id int) any {
	switch vk {
	case "u64":
		return uint64(1)<<63 + uint64(id)
	case "f":
		return float64(id) + 0.5
	}
	return "v" + strconv.Itoa(id)
}

func c30Text(v any) string { return fmt.Sprint(v) }

func c30SleepFor(d time.Duration, site string) {
	// the scheduler reads "nothing happened for one simulated hour" as the end of the run: stay below it
	for d > 0 {
		c := d
		if c > 50*time.Minute {
			c = 50 * time.Minute
		}
		time.Sleep(c)
		d -= c
		simrt.Yield(site)
	}
}

func runC30(c *Case, e *Env) Outcome {
	var w c30W
	if err := json.Unmarshal(c.W, &w); err != nil {
		return Outcome{Verdict: "inconclusive", Clause: "bad-case", Detail: err.Error()}
	}
	// process-global state of the cache: the path, the in-memory maps (replaced by InitCache), the db (fresh file)
	c30Seq++
	path := filepath.Join(e.job.Tmp, "c30-"+strconv.Itoa(c30Seq)+".db")
	wipe := func() {
		for _, s := range []string{"", "-journal", "-wal", "-shm"} {
			os.Remove(path + s)
		}
	}
	wipe()
	defer wipe()
	if w.Legacy && len(c30Legacy) > 0 {
		os.WriteFile(path, c30Legacy, 0644)
		e.Probe("db-from-earlier-release")
	} else if len(c30Tmpl) > 0 {
		os.WriteFile(path, c30Tmpl, 0644)
	}
	cache.SetPath(path)
	cache.InitCache()
	if w.EvNS != 0 {
		// the in-memory maps of these two namespaces are not replaced by InitCache: empty them (and make
		// sure their tables exist in this case's database, whatever file it started from)
		cachedb.CreateTable(c30EvNS[0])
		cachedb.CreateTable(c30EvNS[1])
		cache.Clear(context.Background())
	}

	var hist []c30Ev
	watch := &c30Watch{e: e, hist: &hist}
	ttlOf := map[int]time.Time{}
	faults := map[string]int{}
	probes := map[string]int{}
	task := func(ti int) {
		ops := w.Final
		if ti < len(w.Tasks) {
			ops = w.Tasks[ti]
		}
		for oi, op := range ops {
			site := "t" + strconv.Itoa(ti) + "op" + strconv.Itoa(oi)
			simrt.Yield(site)
			ev := c30Ev{Task: ti, Idx: oi, Op: op}
			what := fmt.Sprintf("operation %d of task %d (%s ns%d %q)", oi, ti, op.Op, op.NS, op.Key)
			watch.inflight.Store(&what)
			ev.Call, ev.T0 = simrt.Stamp(), time.Now()
			ns := c30Namespace(&w, op.NS)
			switch op.Op {
			case "write":
				ev.TTL = ev.T0.Add(time.Duration(op.Ms) * time.Millisecond)
				ttlOf[op.ID] = ev.TTL
				v := c30Val(w.VK, op.ID)
				ev.Val = c30Text(v)
				cache.Write(ns, op.Key, v, ev.TTL)
			case "read":
				// read into the type of the values of this case
				var s string
				var u uint64
				var f float64
				kind := w.VK
				switch kind {
				case "u64":
					ev.OK = cache.Read(ns, op.Key, &u)
					ev.Got = c30Text(u)
				case "f":
					ev.OK = cache.Read(ns, op.Key, &f)
					ev.Got = c30Text(f)
				default:
					ev.OK = cache.Read(ns, op.Key, &s)
					ev.Got = s
				}
			case "trim", "clear":
				var err error
				f := func() {
					if op.Op == "trim" {
						_, err = cache.Trim(context.Background())
					} else {
						_, err = cache.Clear(context.Background())
					}
				}
				c30Outside(f)
				if err != nil {
					ev.Err = err.Error()
					probes[op.Op+"-returned-error"]++
					if len(faults) == 0 {
						probes["error-without-disk-fault"]++
					}
				}
			case "trimns":
				// the database half of Trim for one namespace, run by the task itself under the statement seam
				if _, err := cachedb.Trim(context.Background(), ns); err != nil {
					ev.Err = err.Error()
					probes["trimns-returned-error"]++
				}
				probes["trim-inside-the-schedule"]++
			case "sleep":
				c30SleepFor(time.Duration(op.Ms)*time.Millisecond, site+"z")
			case "sleepto":
				t, ok := ttlOf[op.ID]
				d := t.Add(time.Duration(op.Ms) * time.Millisecond).Sub(time.Now())
				if !ok || d <= 0 {
					ev.Skip = true
				} else {
					c30SleepFor(d, site+"z")
					probes["clock-landed-near-expiry"]++
				}
			case "disk":
				b, err := os.ReadFile(path)
				switch op.Kind {
				case "remove":
					os.Remove(path)
				case "truncate":
					n := int64(0)
					if len(b) > 0 {
						n = op.Ms % int64(len(b))
					}
					os.Truncate(path, n)
				case "garbage", "garbage-head":
					g := NewRand(uint64(op.Ms) + 1)
					n := len(b)
					if op.Kind == "garbage-head" && n > 100 {
						n = 100
					}
					if err != nil {
						b, n = make([]byte, 4096), 4096
					}
					for i := 0; i < n; i++ {
						b[i] = byte(g.U64())
					}
					os.WriteFile(path, b, 0644)
				}
				os.Remove(path + "-journal")
				faults["disk-"+op.Kind]++
			case "reinit":
				cache.InitCache()
			}
			ev.T1, ev.Ret = time.Now(), simrt.Stamp()
			hist = append(hist, ev)
			watch.progress.Add(1)
		}
	}
	c30Cur.Store(watch)
	c30Seam.Store(w.Seam)
	res := e.Bubble(c.Sched, func() {
		fin := make(chan struct{}, len(w.Tasks))
		for ti := range w.Tasks {
			ti := ti
			simrt.Go(func() { task(ti); fin <- struct{}{} })
		}
		if len(w.Final) > 0 {
			for range w.Tasks {
				<-fin
			}
			task(len(w.Tasks))
		}
	})
	c30Seam.Store(false)
	c30Cur.Store(nil)
	for _, k := range sortedKeys(faults) {
		for i := 0; i < faults[k]; i++ {
			e.Fault(k)
		}
	}
	for _, k := range sortedKeys(probes) {
		for i := 0; i < probes[k]; i++ {
			e.Probe(k)
		}
	}
	if res.Panic != "" {
		return Outcome{Verdict: "panic", Clause: "panic", Detail: res.Panic}
	}
	sort.Slice(hist, func(i, j int) bool { return hist[i].Call < hist[j].Call })
	if o, bad := c30Check(hist, e); bad {
		if w.VK != "" && (o.Clause == "missing-before-expiry" || o.Clause == "unwritten-value") {
			o.Clause += "-numeric-value" // same clause of the oracle; what was lost or altered is a JSON number, not a string
		}
		o.Detail += "\nhistory:\n" + c30Render(hist)
		return o
	}
	return okOutcome()
}

func c30Render(hist []c30Ev) string {
	var b strings.Builder
	for _, h := range hist {
		fmt.Fprintf(&b, " [%d..%d] t%d %s %s ", h.Call, h.Ret, h.Task, h.T0.UTC().Format("02T15:04:05.000"), h.Op.Op)
		switch h.Op.Op {
		case "write":
			fmt.Fprintf(&b, "ns%d %q = %s ttl=now%+dms", h.Op.NS, h.Op.Key, h.Val, h.Op.Ms)
		case "read":
			if h.OK {
				fmt.Fprintf(&b, "ns%d %q -> %s", h.Op.NS, h.Op.Key, h.Got)
			} else {
				fmt.Fprintf(&b, "ns%d %q -> nothing", h.Op.NS, h.Op.Key)
			}
		case "sleep":
			fmt.Fprintf(&b, "%dms", h.Op.Ms)
		case "sleepto":
			fmt.Fprintf(&b, "expiry of v%d %+dms (skipped=%v)", h.Op.ID, h.Op.Ms, h.Skip)
		case "disk":
			b.WriteString(h.Op.Kind)
		}
		if h.Err != "" {
			b.WriteString(" error: " + h.Err)
		}
		b.WriteByte('\n')
	}
	return b.String()
}

// ---------------------------------------------------------------- oracle

const c30Window = time.Second

// c30Check: direct clauses (exact on sequential histories, sound on concurrent
// ones) and, for concurrent fault-free histories, linearizability against the
// same model through porcupine.
func c30Check(hist []c30Ev, e *Env) (Outcome, bool) {
	byText := map[string]*c30Ev{}
	var writes, clears []*c30Ev
	var firstFault int64
	concurrent := false
	opErr := false
	var maxRet int64
	for i := range hist {
		h := &hist[i]
		switch h.Op.Op {
		case "write":
			byText[h.Val] = h
			writes = append(writes, h)
		case "clear":
			clears = append(clears, h)
		case "disk":
			if firstFault == 0 {
				firstFault = h.Call
			}
		}
		if h.Err != "" {
			opErr = true
		}
		if h.Call < maxRet {
			concurrent = true
		}
		if h.Ret > maxRet {
			maxRet = h.Ret
		}
	}
	sameKey := func(a, b *c30Ev) bool { return a.Op.NS == b.Op.NS && a.Op.Key == b.Op.Key }
	// an operation that may have met a disk fault, or that reported an error, is not acknowledged
	acked := func(h *c30Ev) bool { return h.Err == "" && (firstFault == 0 || h.Ret < firstFault) }
	for i := range hist {
		r := &hist[i]
		if r.Op.Op != "read" {
			continue
		}
		at := fmt.Sprintf("read of (ns%d,%q) by task %d at stamp %d", r.Op.NS, r.Op.Key, r.Task, r.Call)
		if r.OK {
			e.Probe("read-hit")
			if firstFault != 0 && r.Ret > firstFault {
				e.Probe("read-hit-after-disk-fault")
			}
			w := byText[r.Got]
			if w == nil {
				return violation("unwritten-value", "%s returned %q, which was never written", at, r.Got), true
			}
			if w.Op.NS != r.Op.NS {
				return violation("foreign-namespace-value", "%s returned %s, which was written under (ns%d,%q)", at, r.Got, w.Op.NS, w.Op.Key), true
			}
			if w.Op.Key != r.Op.Key {
				return violation("foreign-value", "%s returned %s, which was written under key %q", at, r.Got, w.Op.Key), true
			}
			if w.Call > r.Ret {
				return violation("value-before-write", "%s returned %s before that write was issued", at, r.Got), true
			}
			for _, w2 := range writes {
				if w2 != w && sameKey(w2, r) && w2.Call > w.Ret && w2.Ret < r.Call && acked(w2) {
					return violation("stale-value", "%s returned %s although the newer %s had been acknowledged (stamps %d..%d)", at, r.Got, w2.Val, w2.Call, w2.Ret), true
				}
			}
			for _, cl := range clears {
				if cl.Call > w.Ret && cl.Ret < r.Call && acked(cl) {
					return violation("returned-after-clear", "%s returned %s although Clear had completed after that write (stamps %d..%d)", at, r.Got, cl.Call, cl.Ret), true
				}
			}
			// no tolerance on the late side: the store keeps whole seconds, which can only make an entry
			// expire early (the window below), never late; a read issued after the TTL instant gets nothing
			if d := r.T0.Sub(w.TTL); d > 0 {
				return violation("returned-after-expiry", "%s returned %s %v after its expiry", at, r.Got, d), true
			}
			continue
		}
		e.Probe("read-miss")
		if firstFault != 0 && r.Ret > firstFault {
			continue // after F-disk: nothing is always acceptable
		}
		// latest write that certainly precedes the read
		var last *c30Ev
		for _, w := range writes {
			if sameKey(w, r) && w.Ret < r.Call && (last == nil || w.Call > last.Call) {
				last = w
			}
		}
		if last == nil {
			continue
		}
		must := true
		for _, w := range writes { // every write that can be the newest one at the read must still be alive
			if sameKey(w, r) && (w == last || (w.Ret > last.Call && w.Call < r.Ret)) && w.TTL.Sub(r.T1) <= c30Window {
				must = false
			}
		}
		for _, cl := range clears {
			if cl.Ret > last.Call && cl.Call < r.Ret {
				must = false
			}
		}
		if must {
			trim := ""
			for k := range hist {
				if t := &hist[k]; (t.Op.Op == "trim" || t.Op.Op == "trimns") && t.Call < r.Ret && t.Ret > last.Call {
					trim = " (a Trim ran in between)"
				}
			}
			return violation("missing-before-expiry", "%s returned nothing, but %s was written (stamps %d..%d) and expires %v after the read returned%s",
				at, last.Val, last.Call, last.Ret, last.TTL.Sub(r.T1), trim), true
		}
	}
	if !concurrent || firstFault != 0 {
		return Outcome{}, false
	}
	if opErr {
		e.Probe("linearizability-skipped-op-error")
		return Outcome{}, false
	}
	// ---- linearizability, one partition per (ns,key); Clear belongs to every partition, Trim changes nothing in the model
	type keyT struct {
		ns  int
		key string
	}
	parts := map[keyT][]porcupine.Operation{}
	var order []keyT
	for i := range hist {
		h := &hist[i]
		if h.Op.Op == "read" || h.Op.Op == "write" {
			k := keyT{h.Op.NS, h.Op.Key}
			if _, ok := parts[k]; !ok {
				order = append(order, k)
				parts[k] = nil
			}
		}
	}
	for i := range hist {
		h := &hist[i]
		op := porcupine.Operation{ClientId: h.Task, Input: h, Call: h.Call, Return: h.Ret}
		switch h.Op.Op {
		case "read", "write":
			k := keyT{h.Op.NS, h.Op.Key}
			parts[k] = append(parts[k], op)
		case "clear":
			for _, k := range order {
				parts[k] = append(parts[k], op)
			}
		}
	}
	type st struct {
		has bool
		val string
		ttl int64
	}
	model := porcupine.Model{
		Init: func() interface{} { return st{} },
		Step: func(state, in, _ interface{}) (bool, interface{}) {
			s, h := state.(st), in.(*c30Ev)
			switch h.Op.Op {
			case "write":
				return true, st{true, h.Val, h.TTL.UnixNano()}
			case "clear":
				return true, st{}
			}
			if h.OK {
				return s.has && s.val == h.Got && h.T0.UnixNano()-s.ttl <= int64(c30Window), s
			}
			return !s.has || s.ttl-h.T1.UnixNano() <= int64(c30Window), s
		},
	}
	deadline := time.Now().Add(10 * time.Second)
	for _, k := range order {
		left := time.Until(deadline)
		if left < 100*time.Millisecond {
			left = 100 * time.Millisecond
		}
		switch porcupine.CheckOperationsTimeout(model, parts[k], left) {
		case porcupine.Illegal:
			return violation("not-linearizable", "the operations on (ns%d,%q) have no order that is consistent with their call/return stamps and with a cache that returns the latest unexpired value", k.ns, k.key), true
		case porcupine.Unknown:
			e.Probe("linearizability-unknown")
		default:
			e.Probe("linearizability-checked")
		}
	}
	return Outcome{}, false
}

// ---------------------------------------------------------------- shrinking

func shrinkC30(c *Case) []Case {
	var w c30W
	json.Unmarshal(c.W, &w)
	var out []Case
	cp := func() c30W {
		var v c30W
		json.Unmarshal(c.W, &v)
		return v
	}
	emit := func(v c30W) {
		var t [][]c30Op
		for _, ops := range v.Tasks {
			if len(ops) > 0 {
				t = append(t, ops)
			}
		}
		if len(t) == 0 {
			return
		}
		v.Tasks = t
		out = append(out, Case{Class: c.Class, W: mustJSON(v), Sched: c.Sched})
	}
	if len(w.Tasks) > 1 { // all operations by one task, in task order (sequential witness)
		v := cp()
		var all []c30Op
		for _, t := range v.Tasks {
			all = append(all, t...)
		}
		v.Tasks = [][]c30Op{all}
		emit(v)
		for i := range w.Tasks {
			v := cp()
			v.Tasks = append(v.Tasks[:i:i], v.Tasks[i+1:]...)
			emit(v)
		}
	}
	for i := range w.Tasks { // halves, then quarters
		n := len(w.Tasks[i])
		for _, parts := range []int{2, 4} {
			if n < 2*parts {
				continue
			}
			for p := 0; p < parts; p++ {
				v := cp()
				lo, hi := p*n/parts, (p+1)*n/parts
				v.Tasks[i] = append(v.Tasks[i][:lo:lo], v.Tasks[i][hi:]...)
				emit(v)
			}
		}
	}
	for i := range w.Tasks { // single operations, last first
		for k := len(w.Tasks[i]) - 1; k >= 0; k-- {
			v := cp()
			v.Tasks[i] = append(v.Tasks[i][:k:k], v.Tasks[i][k+1:]...)
			emit(v)
		}
	}
	if c.Sched.JumpProb > 0 {
		v := Case{Class: c.Class, W: c.W, Sched: c.Sched}
		v.Sched.JumpProb = 0
		v.Sched.Decisions = nil
		out = append(out, v)
	}
	for _, st := range []string{"rr", "pb0"} {
		if c.Sched.Strategy != st && len(w.Tasks) > 1 {
			v := Case{Class: c.Class, W: c.W, Sched: c.Sched}
			v.Sched.Strategy = st
			v.Sched.Decisions = nil
			out = append(out, v)
		}
	}
	// simpler operands
	nsUsed := map[int]bool{}
	for _, t := range w.Tasks {
		for _, op := range t {
			if op.Op == "read" || op.Op == "write" {
				nsUsed[op.NS] = true
			}
		}
	}
	if len(nsUsed) > 1 || !nsUsed[0] { // everything in namespace 0
		v := cp()
		for i := range v.Tasks {
			for k := range v.Tasks[i] {
				v.Tasks[i][k].NS = 0
			}
		}
		emit(v)
	}
	if w.VK != "" {
		v := cp()
		v.VK = ""
		emit(v)
	}
	if w.Legacy {
		v := cp()
		v.Legacy = false
		emit(v)
	}
	keyUsed := map[string]bool{}
	for _, t := range w.Tasks {
		for _, op := range t {
			if op.Op == "read" || op.Op == "write" {
				keyUsed[op.Key] = true
			}
		}
	}
	var ks []string
	for k := range keyUsed {
		ks = append(ks, k)
	}
	sort.Strings(ks)
	for _, old := range ks { // rename one key everywhere to a plain name nobody uses
		if old == "a" || old == "b" || old == "c" {
			continue
		}
		for _, simple := range []string{"a", "b", "c"} {
			if keyUsed[simple] {
				continue
			}
			v := cp()
			for a := range v.Tasks {
				for b := range v.Tasks[a] {
					if o := &v.Tasks[a][b]; (o.Op == "read" || o.Op == "write") && o.Key == old {
						o.Key = simple
					}
				}
			}
			emit(v)
			break
		}
	}
	for i := range w.Tasks {
		for k, op := range w.Tasks[i] {
			set := func(f func(o *c30Op)) {
				v := cp()
				f(&v.Tasks[i][k])
				emit(v)
			}
			switch op.Op {
			case "write":
				if op.Ms != 3600000 {
					set(func(o *c30Op) { o.Ms = 3600000 })
				}
				if op.Ms < 0 && op.Ms != -3600000 {
					set(func(o *c30Op) { o.Ms = -3600000 })
				}
				fallthrough
			case "read":
				if op.NS != 0 {
					set(func(o *c30Op) { o.NS = 0 })
				}
			case "sleep":
				if op.Ms > 1000 {
					set(func(o *c30Op) { o.Ms = 1000 })
					set(func(o *c30Op) { o.Ms /= 2 })
				}
			case "sleepto":
				if op.Ms != 0 {
					set(func(o *c30Op) { o.Ms = 0 })
				}
			case "disk":
				if op.Kind != "remove" {
					set(func(o *c30Op) { o.Kind = "remove" })
				}
			}
		}
	}
	return out
}
