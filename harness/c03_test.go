package h

// C03: a program over the deterministic vocabulary gives the same stdout, stderr
// and exit number under every schedule, and always finishes.

import (
	"encoding/json"
	"fmt"
	"regexp"
	"strconv"
	"strings"
)

// pnode is a statement of a generated program.
type pnode struct {
	T      string   `json:"t"`                // out err assign exprout pipe if foreach try call and or
	S      string   `json:"s,omitempty"`      // text: word, variable name, expression, source of a pipe
	Stages []string `json:"stages,omitempty"` // pipe: filter stages after the source
	Kids   []pnode  `json:"kids,omitempty"`
	Else   []pnode  `json:"else,omitempty"`
}

type c03W struct {
	Funcs  [][]pnode `json:"funcs"` // bodies of f1..fn
	Main   []pnode   `json:"main"`
	K      int       `json:"k"`      // schedules per program
	Limits []int     `json:"limits"` // buffer-limit knob per schedule (0 = production)
	Pfx    string    `json:"pfx,omitempty"`
	NoPre  bool      `json:"nopre,omitempty"` // do not define mxfail (the caller did)
}

func init() {
	register(&Harness{Name: "c03", Gen: genC03, Run: runC03, Shrink: shrinkC03, Init: initMurex})
	propHarness["C03"] = "c03"
}

type c03gen struct {
	r      *Rand
	vars   []string
	loopN  int
	nfuncs int
	budget int
	fpfx   string // function name prefix (C28 runs several programs at once)
	bulk   bool   // at most one bulk pipeline per program
	bulkOK bool
}

var c03Words = []string{"alpha", "beta", "a1b2", "xyz", "hello", "w0rld", "11", "212"}

func (g *c03gen) word() string { return g.r.Pick(c03Words) }

func (g *c03gen) filter() string {
	switch g.r.Intn(13) {
	case 11: // a stage that ignores its stdin: it can finish before the stage feeding it has even written
		return "out " + g.word()
	case 0:
		return "regexp s/a/A/"
	case 1:
		return "regexp s/1/one/"
	case 2:
		return "msort"
	case 3:
		return "mtac"
	case 4:
		return "prepend " + g.word()
	case 5:
		return "append " + g.word()
	case 6:
		return fmt.Sprintf("[..%d]", 1+g.r.Intn(4))
	case 7:
		return "regexp m/[a1]/"
	case 8:
		return "match " + []string{"a", "1", "l"}[g.r.Intn(3)]
	case 9:
		g.loopN++
		v := fmt.Sprintf("lv%d", g.loopN)
		return fmt.Sprintf("foreach %s { out \"<$%s>\" }", v, v)
	case 10:
		g.loopN++
		v := fmt.Sprintf("lv%d", g.loopN)
		return fmt.Sprintf("foreach %s { if { $%s == %s } then { out hit } else { out \"[$%s]\" } }", v, v, []string{"2", "alpha", "11"}[g.r.Intn(3)], v)
	default:
		return "cast str"
	}
}

func (g *c03gen) source(inFunc bool) string {
	switch g.r.Intn(7) {
	case 0:
		return fmt.Sprintf("a [1..%d]", 1+g.r.Intn(12))
	case 1:
		return fmt.Sprintf("a [%s,%s,%s]", g.word(), g.word(), g.word())
	case 2:
		return fmt.Sprintf("tout json [%d,%d,%d]", g.r.Intn(5), g.r.Intn(5), g.r.Intn(5))
	case 3:
		return fmt.Sprintf("ja [1..%d]", 1+g.r.Intn(6))
	case 4:
		if !inFunc && g.nfuncs > 0 {
			return fmt.Sprintf("%sf%d %s", g.fpfx, 1+g.r.Intn(g.nfuncs), g.word())
		}
		return "out " + g.word()
	case 5:
		if len(g.vars) > 0 {
			return "out $" + g.r.Pick(g.vars)
		}
		return "out " + g.word()
	default:
		if !inFunc && g.r.Intn(3) == 0 {
			// a pipeline head that reports on stderr and writes nothing to the pipe: the next statement
			// must still not start before this one has finished
			return "err E" + g.word()
		}
		return fmt.Sprintf("out \"%s %s\"", g.word(), g.word())
	}
}

func (g *c03gen) pipe(inFunc bool) pnode {
	n := pnode{T: "pipe", S: g.source(inFunc)}
	for k := 0; k < 1+g.r.Intn(3); k++ {
		n.Stages = append(n.Stages, g.filter())
	}
	return n
}

func (g *c03gen) cond() string {
	switch g.r.Intn(4) {
	case 0:
		return "true"
	case 1:
		return "false"
	case 2:
		if len(g.vars) > 0 {
			return fmt.Sprintf("$%s == %d", g.r.Pick(g.vars), g.r.Intn(4))
		}
		return "1 == 1"
	default:
		return fmt.Sprintf("%d > %d", g.r.Intn(5), g.r.Intn(5))
	}
}

// stmt generates one statement; pure: no assignments (used inside functions that may run as pipeline stages)
func (g *c03gen) stmt(depth int, inFunc bool) pnode {
	g.budget--
	max := 15
	if depth >= 3 || g.budget <= 0 {
		max = 5
	}
	switch g.r.Intn(max) {
	case 0:
		return pnode{T: "out", S: g.word()}
	case 1:
		if inFunc {
			return pnode{T: "out", S: g.word()}
		}
		return pnode{T: "err", S: g.word()}
	case 2:
		if inFunc {
			return pnode{T: "exprout", S: fmt.Sprintf("%d+%d*%d", g.r.Intn(9), g.r.Intn(9), g.r.Intn(9))}
		}
		v := fmt.Sprintf("v%d", g.r.Intn(3))
		n := pnode{T: "assign", S: v}
		switch g.r.Intn(3) {
		case 0:
			n.Stages = []string{fmt.Sprintf("%d", g.r.Intn(4))}
		case 1:
			n.Stages = []string{fmt.Sprintf("\"%s\"", g.word())}
		default:
			n.Stages = []string{fmt.Sprintf("%d + %d", g.r.Intn(4), g.r.Intn(4))}
		}
		found := false
		for _, x := range g.vars {
			if x == v {
				found = true
			}
		}
		if !found {
			g.vars = append(g.vars, v)
		}
		return n
	case 3:
		return g.pipe(inFunc)
	case 4:
		return pnode{T: "exprout", S: fmt.Sprintf("%d+%d*%d", g.r.Intn(9), g.r.Intn(9), g.r.Intn(9))}
	case 5:
		n := pnode{T: "if", S: g.cond()}
		n.Kids = g.block(depth+1, inFunc, 1+g.r.Intn(2))
		if g.r.Bool() {
			n.Else = g.block(depth+1, inFunc, 1+g.r.Intn(2))
		}
		return n
	case 6:
		g.loopN++
		n := pnode{T: "foreach", S: fmt.Sprintf("lv%d", g.loopN)}
		n.Stages = []string{g.source(inFunc)}
		// the loop variable is readable in the body
		g.vars = append(g.vars, n.S)
		n.Kids = g.block(depth+1, inFunc, 1+g.r.Intn(2))
		g.vars = g.vars[:len(g.vars)-1]
		return n
	case 7:
		n := pnode{T: "try"}
		n.Kids = g.block(depth+1, inFunc, 1+g.r.Intn(3))
		return n
	case 8:
		n := pnode{T: []string{"and", "or"}[g.r.Intn(2)]}
		n.Kids = []pnode{g.simple(inFunc), g.simple(inFunc)}
		return n
	case 9:
		if !inFunc && g.nfuncs > 0 {
			return pnode{T: "call", S: fmt.Sprintf("%sf%d %s", g.fpfx, 1+g.r.Intn(g.nfuncs), g.word())}
		}
		return pnode{T: "out", S: g.word()}
	case 10: // switch on a value
		n := pnode{T: "switch", S: fmt.Sprint(g.r.Intn(3))}
		if len(g.vars) > 0 && g.r.Bool() {
			n.S = "$" + g.r.Pick(g.vars)
		}
		n.Stages = []string{fmt.Sprint(g.r.Intn(3))}
		n.Kids = g.block(depth+1, inFunc, 1+g.r.Intn(2))
		n.Else = g.block(depth+1, inFunc, 1)
		return n
	case 11: // sub-shell inside a string
		return pnode{T: "subout", S: g.word(), Kids: []pnode{g.pipe(inFunc)}}
	case 12: // structured data through format / cast
		n := pnode{T: "pipe", S: fmt.Sprintf("tout json [%d,%d,%d]", g.r.Intn(9), g.r.Intn(9), g.r.Intn(9))}
		n.Stages = []string{[]string{"msort", "mtac", "[..2]"}[g.r.Intn(3)], "format " + []string{"yaml", "jsonl", "json"}[g.r.Intn(3)]}
		if g.r.Bool() {
			n.Stages = append(n.Stages, "cast str")
		}
		return n
	case 13: // bulk data: more bytes in flight than one Read asks for (readers ask for 4-10 KiB at a time)
		if !g.bulkOK || g.bulk || depth > 0 { // thorough tier only: a bulk pipeline costs 20-40k decisions per schedule
			return g.pipe(inFunc)
		}
		g.bulk = true
		if g.r.Intn(4) != 0 {
			// few, large writes: each iteration writes 6-13 KiB in one Write, so the reader falls behind while
			// the writer is still at work (partial reads with more data arriving). Cheap in decisions.
			g.loopN++
			var lit strings.Builder
			for i, k := 0, 1500+g.r.Intn(1500); i < k; i++ {
				fmt.Fprintf(&lit, "%d\\n", 100+i)
			}
			n := pnode{T: "pipe", S: fmt.Sprintf("a [1..%d]", 2+g.r.Intn(4))}
			n.Stages = []string{fmt.Sprintf("foreach lv%d { out \"%s\" }", g.loopN, lit.String()),
				[]string{"cast str", "regexp s/7/seven/", "match 9", "msort"}[g.r.Intn(4)], []string{"count", "regexp m/99/", "msort -> count"}[g.r.Intn(3)]}
			return n
		}
		n := pnode{T: "pipe", S: fmt.Sprintf("a [1..%d]", 800+g.r.Intn(1200))}
		n.Stages = []string{[]string{"cast str", "regexp s/7/seven/", "match 9", "msort"}[g.r.Intn(4)], []string{"count", "[..3]", "regexp m/99/", "mtac -> [..2]"}[g.r.Intn(4)]}
		return n
	default:
		return g.pipe(inFunc)
	}
}

func (g *c03gen) simple(inFunc bool) pnode {
	switch g.r.Intn(4) {
	case 0:
		return pnode{T: "out", S: g.word()}
	case 1:
		return pnode{T: "fail"}
	case 2:
		return g.pipe(inFunc)
	default:
		return pnode{T: "ok"}
	}
}

func (g *c03gen) block(depth int, inFunc bool, n int) []pnode {
	var out []pnode
	for i := 0; i < n; i++ {
		out = append(out, g.stmt(depth, inFunc))
	}
	return out
}

// c03Markers: the subsequence of stderr lines written by the generator's `err <word>` commands
func c03Markers(stderr string) string {
	var out []string
	for _, l := range strings.Split(stderr, "\n") {
		for _, w := range c03Words {
			if l == "E"+w {
				out = append(out, l)
			}
		}
	}
	return strings.Join(out, "\n")
}

var c03ReRange = regexp.MustCompile(`\[1\.\.(\d+)\]`)
var c03ReCall = regexp.MustCompile(`f(\d+) `)

// c03Elems: how many elements a source produces (rough, errs on the high side)
func c03Elems(src string, fcost []int) int {
	if m := c03ReRange.FindStringSubmatch(src); m != nil {
		n, _ := strconv.Atoi(m[1])
		return n
	}
	if m := c03ReCall.FindStringSubmatch(src); m != nil {
		if k, _ := strconv.Atoi(m[1]); k >= 1 && k <= len(fcost) {
			return fcost[k-1] + 1 // a function prints at most about one line per command it runs
		}
	}
	return 3
}

// c03Cost: a rough count of the commands a block executes. Nested loops over function output multiply
// quickly; the generator keeps programs small so that the step budget detects hangs, not program size.
func c03Cost(nodes []pnode, fcost []int) int {
	c := 0
	for _, n := range nodes {
		switch n.T {
		case "foreach":
			c += 1 + c03Elems(n.Stages[0], fcost)*(1+c03Cost(n.Kids, fcost))
		case "pipe":
			c += 1 + len(n.Stages)
			for _, s := range n.Stages {
				if strings.HasPrefix(s, "foreach") {
					c += 3 * c03Elems(n.S, fcost)
				}
			}
			if m := c03ReCall.FindStringSubmatch(n.S); m != nil {
				if k, _ := strconv.Atoi(m[1]); k >= 1 && k <= len(fcost) {
					c += fcost[k-1]
				}
			}
		case "call":
			if m := c03ReCall.FindStringSubmatch(n.S + " "); m != nil {
				if k, _ := strconv.Atoi(m[1]); k >= 1 && k <= len(fcost) {
					c += fcost[k-1]
				}
			}
			c++
		default:
			c += 1 + c03Cost(n.Kids, fcost) + c03Cost(n.Else, fcost)
		}
	}
	return c
}

func genC03(r *Rand, tier string) Case {
	for budget := 22; ; budget = budget*2/3 + 1 {
		c, w := genC03Once(r, tier, budget)
		var fcost []int
		for _, f := range w.Funcs {
			fcost = append(fcost, 1+c03Cost(f, nil))
		}
		if c03Cost(w.Main, fcost) <= 700 || budget <= 3 {
			return c
		}
	}
}

func genC03Once(r *Rand, tier string, budget int) (Case, c03W) {
	g := &c03gen{r: r, budget: budget, bulkOK: tier == "thorough"}
	var w c03W
	nf := r.Intn(3)
	for i := 0; i < nf; i++ {
		// function bodies are generated before nfuncs counts them: functions never call functions (no recursion)
		body := g.block(1, true, 1+r.Intn(3))
		w.Funcs = append(w.Funcs, body)
	}
	g.nfuncs = nf
	w.Main = g.block(0, false, 2+r.Intn(6))
	w.K = 6
	if tier == "thorough" {
		w.K = 12
	}
	for k := 0; k < w.K; k++ {
		lim := []int{0, 0, 1, 3, 16, 256}[r.Intn(6)]
		if g.bulk {
			// tens of KiB through a pipe of a few bytes is millions of decisions: the step budget is there to
			// detect hangs, not to measure the size of a legal program (seen in the thorough tier: a bulk
			// pipeline at a 1-byte limit, 2.7 M decisions, reported as a hang)
			lim = []int{0, 0, 4096, 65536}[r.Intn(4)]
		}
		w.Limits = append(w.Limits, lim)
	}
	return Case{Class: "sequential", W: mustJSON(w), Sched: interpSched(r, 1500)}, w
}

func printBlock(b *strings.Builder, nodes []pnode, indent string) {
	for _, n := range nodes {
		b.WriteString(indent)
		printNode(b, n, indent)
		b.WriteString("\n")
	}
}

func printNode(b *strings.Builder, n pnode, indent string) {
	switch n.T {
	case "out":
		b.WriteString("out " + n.S)
	case "err":
		b.WriteString("err E" + n.S)
	case "ok":
		b.WriteString("out ok")
	case "fail":
		b.WriteString("mxfail")
	case "assign":
		b.WriteString(n.S + " = " + n.Stages[0])
	case "exprout":
		b.WriteString("out (" + n.S + ")")
	case "call", "raw":
		b.WriteString(n.S)
	case "pipe":
		b.WriteString(n.S)
		for _, s := range n.Stages {
			b.WriteString(" -> " + s)
		}
	case "if":
		b.WriteString("if { " + n.S + " } then {\n")
		printBlock(b, n.Kids, indent+"  ")
		b.WriteString(indent + "}")
		if len(n.Else) > 0 {
			b.WriteString(" else {\n")
			printBlock(b, n.Else, indent+"  ")
			b.WriteString(indent + "}")
		}
	case "foreach":
		b.WriteString(n.Stages[0] + " -> foreach " + n.S + " {\n")
		printBlock(b, n.Kids, indent+"  ")
		b.WriteString(indent + "}")
	case "try":
		b.WriteString("try {\n")
		printBlock(b, n.Kids, indent+"  ")
		b.WriteString(indent + "}")
	case "switch":
		b.WriteString("switch " + n.S + " {\n" + indent + "  case " + n.Stages[0] + " {\n")
		printBlock(b, n.Kids, indent+"    ")
		b.WriteString(indent + "  }\n" + indent + "  default {\n")
		printBlock(b, n.Else, indent+"    ")
		b.WriteString(indent + "  }\n" + indent + "}")
	case "subout":
		var sb strings.Builder
		printNode(&sb, n.Kids[0], indent)
		b.WriteString("out \"" + n.S + ":${" + sb.String() + "}\"")
	case "and", "or":
		op := " && "
		if n.T == "or" {
			op = " || "
		}
		printNode(b, n.Kids[0], indent)
		b.WriteString(op)
		printNode(b, n.Kids[1], indent)
	}
}

func (w *c03W) source() string {
	var b strings.Builder
	if !w.NoPre {
		b.WriteString("function mxfail { return 3 }\n")
	}
	for i, f := range w.Funcs {
		fmt.Fprintf(&b, "function %sf%d {\n", w.Pfx, i+1)
		b.WriteString("  out \"f:$1\"\n")
		printBlock(&b, f, "  ")
		b.WriteString("}\n")
	}
	printBlock(&b, w.Main, "")
	return b.String()
}

func runC03(c *Case, e *Env) Outcome {
	var w c03W
	if err := json.Unmarshal(c.W, &w); err != nil {
		return Outcome{Verdict: "inconclusive", Clause: "bad-case", Detail: err.Error()}
	}
	src := w.source()
	var first blockResult
	var firstDesc string
	for k := 0; k < w.K; k++ {
		sc := c.Sched
		sc.Seed = mix(c.Sched.Seed, uint64(k))
		if k == 0 {
			sc.Strategy = "rr" // one round-robin baseline per program
		} else if k > 1 {
			sc.Strategy = strategies[int(sc.Seed%uint64(len(strategies)))]
		}
		lim := 0
		if k < len(w.Limits) {
			lim = w.Limits[k]
		}
		restore := setPipeLimit(lim)
		got, res := e.runProgram(sc, src, 0)
		restore()
		if res.Panic != "" {
			return Outcome{Verdict: "panic", Clause: "panic", Detail: res.Panic}
		}
		desc := fmt.Sprintf("schedule %d (%s, seed %d, buffer limit %d)", k, sc.Strategy, sc.Seed, lim)
		if ct := crashText(got.Out + got.Err + got.ExecErr); ct != "" {
			return violation("internal-panic", "program:\n%s\n%s reported: %s", src, desc, ct)
		}
		if k == 0 {
			first, firstDesc = got, desc
			continue
		}
		switch {
		case got.Out != first.Out:
			return violation("stdout-differs", "program:\n%s\n%s: stdout %q\n%s: stdout %q", src, firstDesc, first.Out, desc, got.Out)
		case got.Err != first.Err && sortedLines(got.Err) == sortedLines(first.Err) && c03Markers(got.Err) == c03Markers(first.Err):
			// same lines in another order: two stages of one pipeline both reported on stderr, which is
			// inherently unordered (like `err a | err b`); not a statement violation. The generator's own
			// `err <word>` lines are different: at most one command per pipeline writes them (a standalone
			// statement or a pipeline head), so their order is the order of the statements and must not move.
			e.Probe("stderr-interleaving-only")
		case got.Err != first.Err:
			return violation("stderr-differs", "program:\n%s\n%s: stderr %q\n%s: stderr %q", src, firstDesc, first.Err, desc, got.Err)
		case got.Exit != first.Exit || got.ExecErr != first.ExecErr:
			return violation("exit-differs", "program:\n%s\n%s: exit %d %q\n%s: exit %d %q", src, firstDesc, first.Exit, first.ExecErr, desc, got.Exit, got.ExecErr)
		}
	}
	return Outcome{Verdict: "ok", Obs: first.obs()}
}

func shrinkNodes(nodes []pnode) [][]pnode {
	var out [][]pnode
	for i := range nodes {
		v := append(append([]pnode{}, nodes[:i]...), nodes[i+1:]...)
		out = append(out, v)
	}
	for i, n := range nodes {
		repl := func(nn pnode) {
			v := append([]pnode{}, nodes...)
			v[i] = nn
			out = append(out, v)
		}
		if len(n.Kids) > 0 && n.T != "and" && n.T != "or" {
			for _, k := range shrinkNodes(n.Kids) {
				if len(k) == 0 {
					continue
				}
				nn := n
				nn.Kids = k
				repl(nn)
			}
		}
		if len(n.Else) > 0 {
			nn := n
			nn.Else = nil
			repl(nn)
		}
		if n.T == "pipe" && len(n.Stages) > 1 {
			for s := range n.Stages {
				nn := n
				nn.Stages = append(append([]string{}, n.Stages[:s]...), n.Stages[s+1:]...)
				repl(nn)
			}
		}
		if n.T == "and" || n.T == "or" {
			repl(n.Kids[0])
			repl(n.Kids[1])
		}
	}
	return out
}

func shrinkC03(c *Case) []Case {
	var w c03W
	json.Unmarshal(c.W, &w)
	var out []Case
	emit := func(v c03W) { out = append(out, Case{Class: c.Class, W: mustJSON(v), Sched: c.Sched}) }
	for _, m := range shrinkNodes(w.Main) {
		if len(m) == 0 {
			continue
		}
		v := w
		v.Main = m
		emit(v)
	}
	for i := range w.Funcs {
		for _, f := range shrinkNodes(w.Funcs[i]) {
			v := w
			v.Funcs = append([][]pnode{}, w.Funcs...)
			v.Funcs[i] = f
			emit(v)
		}
	}
	if w.K > 2 {
		v := w
		v.K = w.K / 2
		emit(v)
	}
	return out
}
