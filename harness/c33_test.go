package h

// C33: redirections route output exactly as written. Generated programs of
// pipelines whose commands write tagged bytes to stdout and stderr, with every
// combination of <err> <!out> <null> <!null>, with or without a consumer, and
// `|> file` / `>> file` endings over generated previous file contents. Each
// program runs under K seeded schedules with a buffer-limit knob each; the
// oracle is the routing model of the statement (DESIGN.md Appendix A).
//
// Every source (one command's stdout or stderr) writes bytes of its own private
// alphabet, so what arrives at a sink can be split by source: the order in which
// bytes of two sources arrive at one sink is not specified and never compared.

import (
	"encoding/base64"
	"encoding/json"
	"fmt"
	"os"
	"path/filepath"
	"sort"
	"strings"
)

type c33Blk struct {
	S string `json:"s"`           // o: `out T` | e: `err T` | t: `tout str T` (no newline) | in: `<stdin>` (copy stdin to stdout)
	T string `json:"t,omitempty"` // payload
}

type c33Stage struct {
	Cmd    string   `json:"cmd"`              // fn (a function with the body Blocks) | out | err | tout (builtin with Blocks[0]) | file
	Blocks []c33Blk `json:"blocks,omitempty"` //
	Redir  []string `json:"redir,omitempty"`  // tokens written right after the command name
	Mode   string   `json:"mode,omitempty"`   // file: trunc (`|>`) | append (`>>`)
	Prev   *string  `json:"prev,omitempty"`   // file: previous contents (base64); nil = the file does not exist
}

type c33Stmt struct {
	Stages []c33Stage `json:"stages"`
}

type c33W struct {
	Stmts  []c33Stmt `json:"stmts"`
	K      int       `json:"k"`
	Limits []int     `json:"limits"`
}

func init() {
	register(&Harness{Name: "c33", Gen: genC33, Run: runC33, Shrink: shrinkC33, Init: initMurex})
	propHarness["C33"] = "c33"
}

// ---------------------------------------------------------------- generator

const c33Pool = "abcdefghijklmnopqrstuvwxyzABCDEFGHIJKLMNOPQRSTUVWXYZ0123456789._:,+=@%/~"

type c33gen struct {
	r    *Rand
	pool []byte
	big  bool // this statement may emit payloads above 10 KiB (one copy chunk of io.Copy/WriteTo paths)
}

func (g *c33gen) alphabet() []byte {
	n := 4
	if len(g.pool) < n {
		n = len(g.pool) // never happens with <= 18 sources
	}
	a := g.pool[:n]
	g.pool = g.pool[n:]
	return a
}

func (g *c33gen) size() int {
	if g.big && g.r.Intn(3) == 0 {
		return 10300 + g.r.Intn(3000)
	}
	switch x := g.r.Intn(20); {
	case x < 10:
		return 1 + g.r.Intn(8)
	case x < 15:
		return 17 + g.r.Intn(32) // beyond a 16-byte limit
	case x < 18:
		return 257 + g.r.Intn(150) // beyond a 256-byte limit
	default:
		return 1025 + g.r.Intn(300) // beyond one ReadFrom chunk
	}
}

func (g *c33gen) text(alpha []byte) string {
	n := g.size()
	b := make([]byte, n)
	for i := range b {
		b[i] = alpha[g.r.Intn(len(alpha))]
	}
	return string(b)
}

var c33OutRedir = []string{"", "<err>", "<null>"}
var c33ErrRedir = []string{"", "<!out>", "<!null>"}

func (g *c33gen) redirs(p float64) []string {
	var rd []string
	if !g.r.Chance(p) {
		return nil
	}
	o, e := c33OutRedir[g.r.Intn(3)], c33ErrRedir[g.r.Intn(3)]
	if o != "" {
		rd = append(rd, o)
	}
	if e != "" {
		rd = append(rd, e)
	}
	if len(rd) == 2 && g.r.Bool() {
		rd[0], rd[1] = rd[1], rd[0]
	}
	return rd
}

// body of an emitter function; mid: it also copies its stdin to its stdout at some position
func (g *c33gen) fnBody(mid bool) []c33Blk {
	ao, ae := g.alphabet(), g.alphabet()
	n := 1 + g.r.Intn(4)
	if mid {
		n = g.r.Intn(4)
	}
	var b []c33Blk
	for i := 0; i < n; i++ {
		switch x := g.r.Intn(9); {
		case x < 4:
			b = append(b, c33Blk{S: "o", T: g.text(ao)})
		case x < 8:
			b = append(b, c33Blk{S: "e", T: g.text(ae)})
		default:
			b = append(b, c33Blk{S: "t", T: g.text(ao)})
		}
	}
	if mid {
		at := g.r.Intn(len(b) + 1)
		b = append(b[:at], append([]c33Blk{{S: "in"}}, b[at:]...)...)
	}
	return b
}

func (g *c33gen) head() c33Stage {
	switch x := g.r.Intn(10); {
	case x < 5:
		return c33Stage{Cmd: "fn", Blocks: g.fnBody(false), Redir: g.redirs(0.9)}
	case x < 7:
		return c33Stage{Cmd: "out", Blocks: []c33Blk{{S: "o", T: g.text(g.alphabet())}}, Redir: g.redirs(0.9)}
	case x < 9:
		return c33Stage{Cmd: "err", Blocks: []c33Blk{{S: "e", T: g.text(g.alphabet())}}, Redir: g.redirs(0.9)}
	default:
		return c33Stage{Cmd: "tout", Blocks: []c33Blk{{S: "t", T: g.text(g.alphabet())}}, Redir: g.redirs(0.9)}
	}
}

// neverEnds: with buffer limit lim the program contains a command written with <!out> that feeds
// another command and writes more than lim bytes to stderr before anything declared the data type of
// the pipe (only a write to a stdout that still goes to the pipe does). murex then never ends: the
// reader waits for the pipe's data type while the writer waits for room (reproduced with the real
// binary: production limit, 1 MiB of stderr). Found once, that hang is the same finding every time and
// each occurrence costs a whole step budget, so the generator gives nine out of ten such (program,
// limit) pairs the production limit instead. A bias, not an exclusion.
func (w *c33W) neverEnds(lim int) bool {
	if lim <= 0 {
		return false
	}
	for _, s := range w.Stmts {
		for gi, st := range s.Stages {
			if gi == len(s.Stages)-1 {
				continue
			}
			errOut, outAway := false, false
			for _, t := range st.Redir {
				errOut = errOut || t == "<!out>"
				outAway = outAway || t == "<err>" || t == "<null>"
			}
			if !errOut {
				continue
			}
			buffered := 0
			for _, b := range st.Blocks {
				if b.S != "e" {
					if !outAway {
						break
					}
					continue
				}
				if buffered >= lim {
					return true
				}
				buffered += len(b.T) + 1
			}
		}
	}
	return false
}

func (g *c33gen) stmt() c33Stmt {
	var s c33Stmt
	shape := g.r.Intn(10)
	// payloads above one copy chunk: mostly where the bytes end in a file (io.Copy/WriteTo paths)
	g.big = g.r.Intn(8) == 0 || (shape >= 8 && g.r.Intn(2) == 0)
	s.Stages = append(s.Stages, g.head())
	// 0-2 standalone, 3-5 head + consumer, 6-7 head + mid (+ consumer), 8-9 ... ending in a file
	if shape >= 6 && shape <= 7 || (shape >= 8 && g.r.Intn(3) == 0) {
		s.Stages = append(s.Stages, c33Stage{Cmd: "fn", Blocks: g.fnBody(true), Redir: g.redirs(0.85)})
	}
	if (shape >= 3 && shape <= 5) || (shape >= 6 && shape <= 7 && g.r.Intn(3) != 0) {
		// the verbatim consumer; sometimes redirected itself
		s.Stages = append(s.Stages, c33Stage{Cmd: "fn", Blocks: []c33Blk{{S: "in"}}, Redir: g.redirs(0.25)})
	}
	if shape >= 8 {
		f := c33Stage{Cmd: "file", Mode: []string{"trunc", "append"}[g.r.Intn(2)]}
		if g.r.Intn(6) != 0 {
			n := []int{0, 1 + g.r.Intn(8), 1 + g.r.Intn(8), 20 + g.r.Intn(300)}[g.r.Intn(4)]
			b := make([]byte, n)
			for i := range b {
				b[i] = byte(g.r.Intn(256))
			}
			p := base64.StdEncoding.EncodeToString(b)
			f.Prev = &p
		}
		s.Stages = append(s.Stages, f)
	}
	return s
}

func genC33(r *Rand, tier string) Case {
	g := &c33gen{r: r, pool: []byte(c33Pool)}
	for i := len(g.pool) - 1; i > 0; i-- {
		j := r.Intn(i + 1)
		g.pool[i], g.pool[j] = g.pool[j], g.pool[i]
	}
	var w c33W
	n := []int{1, 1, 1, 2, 2, 3}[r.Intn(6)]
	for i := 0; i < n; i++ {
		w.Stmts = append(w.Stmts, g.stmt())
	}
	w.K = 3
	if tier == "thorough" {
		w.K = 8
	}
	// the first run is the baseline with the production limit
	w.Limits = append(w.Limits, 0)
	hasBig := false
	for _, st := range w.Stmts {
		for _, sg := range st.Stages {
			for _, b := range sg.Blocks {
				hasBig = hasBig || len(b.T) > 4096
			}
		}
	}
	for k := 1; k < w.K; k++ {
		lim := []int{1, 16, 256, 0}[r.Intn(4)]
		if hasBig {
			// a payload of 12 KiB through a 1-byte pipe is 12000 rounds: the step budget is for hangs
			lim = []int{256, 4096, 0, 0}[r.Intn(4)]
		}
		if w.neverEnds(lim) && r.Intn(10) != 0 {
			lim = 0
		}
		w.Limits = append(w.Limits, lim)
	}
	class := "standalone"
	for _, s := range w.Stmts {
		if len(s.Stages) > 1 {
			class = "pipeline"
		}
	}
	for _, s := range w.Stmts {
		if s.Stages[len(s.Stages)-1].Cmd == "file" {
			class = "file"
		}
	}
	sc := Sched{Strategy: pickStrategy(r), EstLen: 1500, MaxSteps: 60000}
	if hasBig {
		sc.MaxSteps = 400000
	}
	return Case{Class: class, W: mustJSON(w), Sched: sc}
}

// ---------------------------------------------------------------- validity (generator discipline, also applied to shrunk cases)

func (w *c33W) valid() error {
	if len(w.Stmts) == 0 || len(w.Stmts) > 3 {
		return fmt.Errorf("1..3 statements")
	}
	owner := map[byte]string{}
	for si, s := range w.Stmts {
		if len(s.Stages) == 0 || len(s.Stages) > 4 {
			return fmt.Errorf("statement %d: 1..4 stages", si)
		}
		for gi, st := range s.Stages {
			var o, e int
			for _, rd := range st.Redir {
				switch rd {
				case "<err>", "<null>":
					o++
				case "<!out>", "<!null>":
					e++
				default:
					return fmt.Errorf("unknown redirection %q", rd)
				}
			}
			if o > 1 || e > 1 {
				return fmt.Errorf("a stream is redirected twice")
			}
			ins := 0
			for _, b := range st.Blocks {
				switch b.S {
				case "in":
					ins++
					continue
				case "o", "e", "t":
				default:
					return fmt.Errorf("unknown block %q", b.S)
				}
				if b.T == "" {
					return fmt.Errorf("empty payload")
				}
				src := c33SrcName(si, gi, b.S)
				for i := 0; i < len(b.T); i++ {
					if strings.IndexByte(c33Pool, b.T[i]) < 0 {
						return fmt.Errorf("payload byte %q outside the pool", b.T[i])
					}
					if x, ok := owner[b.T[i]]; ok && x != src {
						return fmt.Errorf("byte %q used by two sources (%s, %s)", b.T[i], x, src)
					}
					owner[b.T[i]] = src
				}
			}
			switch st.Cmd {
			case "file":
				if gi == 0 || gi != len(s.Stages)-1 || (st.Mode != "trunc" && st.Mode != "append") || len(st.Redir) > 0 {
					return fmt.Errorf("file stage must end a pipeline")
				}
				if st.Prev != nil {
					if _, err := base64.StdEncoding.DecodeString(*st.Prev); err != nil {
						return err
					}
				}
			case "fn":
				// a command that follows a pipe reads its stdin to the end, a head never reads stdin
				if (gi == 0 && ins != 0) || (gi > 0 && ins != 1) || len(st.Blocks) == 0 {
					return fmt.Errorf("statement %d stage %d: stdin use", si, gi)
				}
			case "out", "err", "tout":
				want := map[string]string{"out": "o", "err": "e", "tout": "t"}[st.Cmd]
				if gi != 0 || len(st.Blocks) != 1 || st.Blocks[0].S != want {
					return fmt.Errorf("builtin stage")
				}
			default:
				return fmt.Errorf("unknown command %q", st.Cmd)
			}
		}
	}
	return nil
}

// ---------------------------------------------------------------- printing

func c33SrcName(si, gi int, kind string) string {
	if kind == "t" {
		kind = "o"
	}
	return fmt.Sprintf("s%d.c%d.std%s", si+1, gi+1, map[string]string{"o": "out", "e": "err"}[kind])
}

func c33Abbrev(s string) string {
	if len(s) <= 48 {
		return s
	}
	return fmt.Sprintf("%s…(%d bytes)…%s", s[:16], len(s), s[len(s)-8:])
}

func c33BlkSrc(b c33Blk, abbrev bool) string {
	t := b.T
	if abbrev {
		t = c33Abbrev(t)
	}
	switch b.S {
	case "o":
		return "out '" + t + "'"
	case "e":
		return "err '" + t + "'"
	case "t":
		return "tout str '" + t + "'"
	}
	return "<stdin>"
}

// source prints the program; files[i] is the path used by the i-th file stage
func (w *c33W) source(files []string, abbrev bool) string {
	var b strings.Builder
	for si, s := range w.Stmts {
		for gi, st := range s.Stages {
			if st.Cmd != "fn" {
				continue
			}
			fmt.Fprintf(&b, "function rf%d%d {", si+1, gi+1)
			for i, blk := range st.Blocks {
				if i > 0 {
					b.WriteString(";")
				}
				b.WriteString(" " + c33BlkSrc(blk, abbrev))
			}
			b.WriteString(" }\n")
		}
	}
	nf := 0
	for si, s := range w.Stmts {
		for gi, st := range s.Stages {
			if st.Cmd == "file" {
				op := map[string]string{"trunc": "|>", "append": ">>"}[st.Mode]
				name := fmt.Sprintf("FILE%d", nf+1)
				if nf < len(files) {
					name = files[nf]
				}
				nf++
				fmt.Fprintf(&b, " %s '%s'", op, name)
				continue
			}
			if gi > 0 {
				b.WriteString(" -> ")
			}
			rd := ""
			for _, t := range st.Redir {
				rd += " " + t
			}
			switch st.Cmd {
			case "fn":
				fmt.Fprintf(&b, "rf%d%d%s", si+1, gi+1, rd)
			case "out", "err":
				t := st.Blocks[0].T
				if abbrev {
					t = c33Abbrev(t)
				}
				fmt.Fprintf(&b, "%s%s '%s'", st.Cmd, rd, t)
			case "tout":
				t := st.Blocks[0].T
				if abbrev {
					t = c33Abbrev(t)
				}
				fmt.Fprintf(&b, "tout%s str '%s'", rd, t)
			}
		}
		b.WriteString("\n")
	}
	return b.String()
}

// ---------------------------------------------------------------- routing model of the statement

type c33Seg struct {
	src  string
	text string
	nl   bool
}

type c33Source struct {
	name  string
	want  string // its bytes, in order, without line terminators
	dest  string // stdout | stderr | file<n> | null | lost (known-defect variant only)
	route string // default-stdout default-stderr <err> <!out> <null> <!null>
	cmd   string // how the command is written, for messages
	via   string // the later command whose redirection decided the route, if any
}

type c33Expect struct {
	sinks   map[string][]c33Seg // stdout, stderr, file1.. : what arrives, segment order meaningful only within one source
	sources []*c33Source
	files   []c33File
	// shape counters
	errNoConsumer int // `<!out>` written on a command that nothing follows in its pipeline
}

type c33File struct {
	sink string
	mode string
	prev []byte
	has  bool
}

// model computes what the statement says; lostErrOut selects the known-defect variant in which the
// stderr of a command written with <!out> that ends its pipeline arrives nowhere.
func (w *c33W) model(lostErrOut bool) *c33Expect {
	x := &c33Expect{sinks: map[string][]c33Seg{"stdout": nil, "stderr": nil}}
	byName := map[string]*c33Source{}
	src := func(name, cmd string) *c33Source {
		if byName[name] == nil {
			byName[name] = &c33Source{name: name, cmd: cmd}
			x.sources = append(x.sources, byName[name])
		}
		return byName[name]
	}
	for si, s := range w.Stmts {
		var in []c33Seg // what reaches the stdin of the current stage
		for gi, st := range s.Stages {
			if st.Cmd == "file" {
				f := c33File{sink: fmt.Sprintf("file%d", len(x.files)+1), mode: st.Mode}
				if st.Prev != nil {
					f.prev, _ = base64.StdEncoding.DecodeString(*st.Prev)
					f.has = true
				}
				x.files = append(x.files, f)
				x.sinks[f.sink] = in
				in = nil
				continue
			}
			cmd := st.Cmd
			if cmd == "fn" {
				cmd = fmt.Sprintf("rf%d%d", si+1, gi+1)
			}
			for _, t := range st.Redir {
				cmd += " " + t
			}
			var o, e []c33Seg
			for _, b := range st.Blocks {
				switch b.S {
				case "o", "t":
					n := c33SrcName(si, gi, "o")
					src(n, cmd)
					o = append(o, c33Seg{src: n, text: b.T, nl: b.S == "o"})
				case "e":
					n := c33SrcName(si, gi, "e")
					src(n, cmd)
					e = append(e, c33Seg{src: n, text: b.T, nl: true})
				case "in":
					o = append(o, in...)
				}
			}
			outSink := "stdout"
			last := gi == len(s.Stages)-1
			if !last {
				outSink = "next"
			}
			oDst, eDst, oRoute, eRoute := outSink, "stderr", "default-stdout", "default-stderr"
			for _, t := range st.Redir {
				switch t {
				case "<err>":
					oDst, oRoute = "stderr", t
				case "<null>":
					oDst, oRoute = "null", t
				case "<!out>":
					eDst, eRoute = outSink, t
					if last {
						x.errNoConsumer++
						if lostErrOut {
							eDst = "lost"
						}
					}
				case "<!null>":
					eDst, eRoute = "null", t
				}
			}
			var next []c33Seg
			put := func(dst string, segs []c33Seg) {
				switch dst {
				case "next":
					next = append(next, segs...)
				case "stdout", "stderr":
					x.sinks[dst] = append(x.sinks[dst], segs...)
				}
			}
			// a source's route is the last redirection applied to it: its own command's, or that of a
			// later command whose stdout carries it on
			for _, sg := range o {
				if sg.src == c33SrcName(si, gi, "o") || oRoute != "default-stdout" {
					byName[sg.src].route = oRoute
					if sg.src != c33SrcName(si, gi, "o") {
						byName[sg.src].via = cmd
					}
				}
			}
			for _, sg := range e {
				byName[sg.src].route = eRoute
			}
			put(oDst, o)
			put(eDst, e)
			if oDst == "null" || oDst == "lost" {
				for _, sg := range o {
					byName[sg.src].dest = oDst
				}
			}
			if eDst == "null" || eDst == "lost" {
				for _, sg := range e {
					byName[sg.src].dest = eDst
				}
			}
			in = next
		}
	}
	for _, sink := range c33SinkNames(x) {
		for _, sg := range x.sinks[sink] {
			byName[sg.src].dest = sink
		}
	}
	for _, s := range x.sources {
		s.want = ""
	}
	// per-source byte sequence = its blocks in program order
	for si, st := range w.Stmts {
		for gi, g := range st.Stages {
			for _, b := range g.Blocks {
				if b.S == "in" {
					continue
				}
				byName[c33SrcName(si, gi, b.S)].want += b.T
			}
		}
	}
	return x
}

func c33SinkNames(x *c33Expect) []string {
	n := []string{"stdout", "stderr"}
	for _, f := range x.files {
		n = append(n, f.sink)
	}
	return n
}

// ---------------------------------------------------------------- comparison

type c33Obs struct {
	sinks   map[string][]byte // stdout, stderr, file<n>
	missing map[string]bool   // file<n> does not exist after the run
}

func c33Quote(b []byte) string {
	s := string(b)
	if len(s) > 160 {
		return fmt.Sprintf("%q…(%d bytes)…%q", s[:80], len(s), s[len(s)-40:])
	}
	return fmt.Sprintf("%q", s)
}

func c33Describe(want, got string) string {
	switch {
	case got == "":
		return fmt.Sprintf("none of its %d bytes arrived", len(want))
	case len(got) < len(want) && strings.HasPrefix(want, got):
		return fmt.Sprintf("only the first %d of its %d bytes arrived", len(got), len(want))
	case len(got) > len(want) && strings.HasPrefix(got, want):
		return fmt.Sprintf("%d bytes arrived, %d were written (all of them arrived, followed by %s)", len(got), len(want), c33Quote([]byte(got[len(want):])))
	}
	i := 0
	for i < len(got) && i < len(want) && got[i] == want[i] {
		i++
	}
	return fmt.Sprintf("%d bytes arrived, %d were written, first difference at offset %d (arrived %s, written %s)", len(got), len(want), i, c33Quote([]byte(got)), c33Quote([]byte(want)))
}

// check compares the observation with an expectation; "" = conforms
func (x *c33Expect) check(o *c33Obs) (clause, detail string) {
	owner := map[byte]*c33Source{}
	for _, s := range x.sources {
		for i := 0; i < len(s.want); i++ {
			owner[s.want[i]] = s
		}
	}
	sinks := c33SinkNames(x)
	payload := map[string][]byte{} // sink -> bytes that arrived during the run
	for _, sink := range sinks {
		payload[sink] = o.sinks[sink]
	}
	// files: previous contents
	for _, f := range x.files {
		got := o.sinks[f.sink]
		if o.missing[f.sink] {
			cl := map[string]string{"trunc": "file-truncate-content", "append": "file-append-content"}[f.mode]
			return cl, fmt.Sprintf("%s does not exist after the pipeline that writes it", f.sink)
		}
		if f.mode == "append" {
			if len(got) < len(f.prev) || string(got[:len(f.prev)]) != string(f.prev) {
				return "file-append-content", fmt.Sprintf("%s no longer starts with its previous contents: previous %s (%d bytes), now %s (%d bytes)", f.sink, c33Quote(f.prev), len(f.prev), c33Quote(got), len(got))
			}
			payload[f.sink] = got[len(f.prev):]
		}
	}
	fileClause := func(sink string) string {
		for _, f := range x.files {
			if f.sink == sink {
				return map[string]string{"trunc": "file-truncate-content", "append": "file-append-content"}[f.mode]
			}
		}
		return ""
	}
	// split every sink by source
	per := map[string]map[string][]byte{}
	nls := map[string]int{}
	for _, sink := range sinks {
		per[sink] = map[string][]byte{}
		var foreign []byte
		for _, c := range payload[sink] {
			switch {
			case c == '\n':
				nls[sink]++
			case owner[c] != nil:
				per[sink][owner[c].name] = append(per[sink][owner[c].name], c)
			default:
				foreign = append(foreign, c)
			}
		}
		if len(foreign) > 0 {
			if cl := fileClause(sink); cl != "" {
				return cl, fmt.Sprintf("%s holds bytes no command wrote: %s; whole contents written by the run: %s", sink, c33Quote(foreign), c33Quote(payload[sink]))
			}
			return "unexpected-bytes", fmt.Sprintf("block %s holds bytes no generated command wrote: %s", sink, c33Quote(payload[sink]))
		}
	}
	// every source: all of its bytes at its destination, in order ...
	for _, s := range x.sources {
		if s.dest == "null" || s.dest == "lost" {
			continue
		}
		got := string(per[s.dest][s.name])
		if got == s.want {
			continue
		}
		var where []string
		for _, sink := range sinks {
			if sink != s.dest && len(per[sink][s.name]) > 0 {
				where = append(where, fmt.Sprintf("%d of its bytes are at %s", len(per[sink][s.name]), sink))
			}
		}
		if len(where) == 0 {
			where = append(where, "none of its bytes are at any other sink")
		}
		cl := fileClause(s.dest)
		if cl == "" {
			switch s.route {
			case "<err>":
				cl = "stdout-to-stderr-lost"
			case "<!out>":
				cl = "stderr-to-stdout-lost"
			case "default-stdout":
				cl = "stdout-default-route"
			default:
				cl = "stderr-default-route"
			}
		}
		via := ""
		if s.via != "" {
			via = " of `" + s.via + "`"
		}
		return cl, fmt.Sprintf("%s of `%s` (route %s%s) must arrive at %s: %s; %s", s.name, s.cmd, s.route, via, s.dest, c33Describe(s.want, got), strings.Join(where, ", "))
	}
	// ... and nowhere else
	for _, s := range x.sources {
		for _, sink := range sinks {
			if sink == s.dest || len(per[sink][s.name]) == 0 {
				continue
			}
			switch s.dest {
			case "null":
				return "null-not-discarded", fmt.Sprintf("%s of `%s` is discarded by %s, yet %d of its %d bytes arrived at %s: %s", s.name, s.cmd, s.route, len(per[sink][s.name]), len(s.want), sink, c33Quote(per[sink][s.name]))
			case "lost":
				return "known-variant-mismatch", ""
			}
			if cl := fileClause(sink); cl != "" {
				return cl, fmt.Sprintf("%s holds %d bytes of %s (`%s`), which was not piped into it: %s", sink, len(per[sink][s.name]), s.name, s.cmd, c33Quote(per[sink][s.name]))
			}
			return "bytes-moved-between-streams", fmt.Sprintf("%s of `%s` goes to %s only, yet %d of its bytes also arrived at %s: %s", s.name, s.cmd, s.dest, len(per[sink][s.name]), sink, c33Quote(per[sink][s.name]))
		}
	}
	// line terminators, and exact contents where one source only feeds a sink
	for _, sink := range sinks {
		want := 0
		srcs := map[string]bool{}
		var exact []byte
		for _, sg := range x.sinks[sink] {
			if sg.nl {
				want++
			}
			srcs[sg.src] = true
			exact = append(exact, sg.text...)
			if sg.nl {
				exact = append(exact, '\n')
			}
		}
		cl := fileClause(sink)
		if len(srcs) <= 1 && string(exact) != string(payload[sink]) {
			if cl == "" {
				cl = "line-terminators"
			}
			return cl, fmt.Sprintf("%s: written there %s, arrived %s", sink, c33Quote(exact), c33Quote(payload[sink]))
		}
		if nls[sink] != want {
			if cl == "" {
				cl = "line-terminators"
			}
			return cl, fmt.Sprintf("%s holds %d line terminators, the commands routed there wrote %d", sink, nls[sink], want)
		}
	}
	return "", ""
}

// ---------------------------------------------------------------- run

func runC33(c *Case, e *Env) Outcome {
	var w c33W
	if err := json.Unmarshal(c.W, &w); err != nil {
		return Outcome{Verdict: "inconclusive", Clause: "bad-case", Detail: err.Error()}
	}
	if err := w.valid(); err != nil {
		return Outcome{Verdict: "inconclusive", Clause: "bad-case", Detail: err.Error()}
	}
	want := w.model(false)
	known := w.model(true)
	// private files, unique per case
	dir := filepath.Join(e.job.Tmp, "c33")
	os.MkdirAll(dir, 0755)
	var files []string
	for i := range want.files {
		files = append(files, filepath.Join(dir, fmt.Sprintf("f%016x-%d", strHash(string(c.W)), i+1)))
	}
	defer func() {
		for _, f := range files {
			os.Remove(f)
		}
	}()
	src := w.source(files, false)
	show := w.source(nil, true)
	for _, s := range w.Stmts {
		for _, st := range s.Stages {
			for _, t := range st.Redir {
				e.Probe("redir " + t)
			}
			if st.Cmd == "file" {
				e.Probe("file " + st.Mode)
			}
		}
	}
	if want.errNoConsumer > 0 {
		e.Probe("<!out> on a command that ends its pipeline")
	}
	for k := 0; k < w.K; k++ {
		sc := c.Sched
		sc.Seed = mix(c.Sched.Seed, uint64(k))
		if k > 0 {
			sc.Strategy = strategies[int(sc.Seed%uint64(len(strategies)))]
		}
		lim := 0
		if k < len(w.Limits) {
			lim = w.Limits[k]
		}
		for i, f := range want.files {
			os.Remove(files[i])
			if f.has {
				if err := os.WriteFile(files[i], f.prev, 0644); err != nil {
					return Outcome{Verdict: "inconclusive", Clause: "tmp-dir", Detail: err.Error()}
				}
			}
		}
		restore := setPipeLimit(lim)
		got, res := e.runProgram(sc, src, 0)
		restore()
		if res.Panic != "" {
			return Outcome{Verdict: "panic", Clause: "panic", Detail: res.Panic}
		}
		desc := fmt.Sprintf("schedule %d (%s, seed %d, buffer limit %d)", k, sc.Strategy, sc.Seed, lim)
		if ct := crashText(got.Out + got.Err + got.ExecErr); ct != "" {
			return violation("internal-panic", "program:\n%s%s reported: %s", show, desc, ct)
		}
		if got.ExecErr != "" {
			return violation("program-rejected", "program:\n%s%s: %s", show, desc, got.ExecErr)
		}
		o := &c33Obs{sinks: map[string][]byte{"stdout": []byte(got.Out), "stderr": []byte(got.Err)}, missing: map[string]bool{}}
		for i, f := range want.files {
			b, err := os.ReadFile(files[i])
			if err != nil {
				o.missing[f.sink] = true
			}
			o.sinks[f.sink] = b
		}
		cl, detail := want.check(o)
		if cl == "" {
			continue
		}
		var obs []string
		for _, sink := range c33SinkNames(want) {
			obs = append(obs, fmt.Sprintf("%s=%s", sink, c33Quote(o.sinks[sink])))
		}
		if want.errNoConsumer > 0 {
			if kc, _ := known.check(o); kc == "" {
				return violation("stderr-to-stdout-lost-no-consumer", "program:\n%s%s\n%s\n(everything else is routed as written: the result is exactly what the statement gives when the stderr of a command written with <!out> that ends its pipeline arrives nowhere)\nobserved: %s", show, desc, detail, strings.Join(obs, " "))
			}
		}
		return violation(cl, "program:\n%s%s\n%s\nobserved: %s", show, desc, detail, strings.Join(obs, " "))
	}
	return okOutcome()
}

// ---------------------------------------------------------------- shrink

func (w *c33W) clone() c33W {
	var v c33W
	json.Unmarshal(mustJSON(w), &v)
	return v
}

func shrinkC33(c *Case) []Case {
	var w c33W
	if json.Unmarshal(c.W, &w) != nil {
		return nil
	}
	var out []Case
	seen := map[string]bool{string(c.W): true}
	emit := func(v c33W) {
		if v.valid() != nil {
			return
		}
		b := mustJSON(v)
		if seen[string(b)] {
			return
		}
		seen[string(b)] = true
		out = append(out, Case{Class: c.Class, W: b, Sched: c.Sched})
	}
	// one schedule only: each of the limits in turn
	if w.K > 1 {
		var lims []int
		for _, l := range w.Limits {
			dup := false
			for _, x := range lims {
				dup = dup || x == l
			}
			if !dup {
				lims = append(lims, l)
			}
		}
		sort.Ints(lims)
		for _, l := range lims {
			v := w.clone()
			v.K, v.Limits = 1, []int{l}
			emit(v)
		}
	}
	// drop statements
	for i := range w.Stmts {
		v := w.clone()
		v.Stmts = append(v.Stmts[:i], v.Stmts[i+1:]...)
		emit(v)
	}
	for si := range w.Stmts {
		st := w.Stmts[si].Stages
		// drop everything after the head, then single stages (consumer, mid, file)
		if len(st) > 1 {
			v := w.clone()
			v.Stmts[si].Stages = v.Stmts[si].Stages[:1]
			emit(v)
		}
		for gi := len(st) - 1; gi >= 1; gi-- {
			v := w.clone()
			s := v.Stmts[si].Stages
			v.Stmts[si].Stages = append(s[:gi], s[gi+1:]...)
			emit(v)
		}
		// a function head with one block becomes the builtin
		if st[0].Cmd == "fn" && len(st[0].Blocks) == 1 {
			v := w.clone()
			v.Stmts[si].Stages[0].Cmd = map[string]string{"o": "out", "e": "err", "t": "tout"}[st[0].Blocks[0].S]
			emit(v)
		}
		for gi := range st {
			// drop redirections
			if len(st[gi].Redir) > 0 {
				v := w.clone()
				v.Stmts[si].Stages[gi].Redir = nil
				emit(v)
			}
			if len(st[gi].Redir) > 1 {
				for ri := range st[gi].Redir {
					v := w.clone()
					r := v.Stmts[si].Stages[gi].Redir
					v.Stmts[si].Stages[gi].Redir = append(r[:ri], r[ri+1:]...)
					emit(v)
				}
			}
			// drop blocks, shrink payloads
			for bi, b := range st[gi].Blocks {
				if len(st[gi].Blocks) > 1 {
					v := w.clone()
					bl := v.Stmts[si].Stages[gi].Blocks
					v.Stmts[si].Stages[gi].Blocks = append(bl[:bi], bl[bi+1:]...)
					emit(v)
				}
				for _, n := range []int{1, 2, len(b.T) / 2} {
					if n >= 1 && n < len(b.T) {
						v := w.clone()
						v.Stmts[si].Stages[gi].Blocks[bi].T = b.T[:n]
						emit(v)
					}
				}
				if b.S == "t" {
					v := w.clone()
					v.Stmts[si].Stages[gi].Blocks[bi].S = "o"
					emit(v)
				}
			}
			// files: no previous contents, shorter previous contents
			if st[gi].Cmd == "file" && st[gi].Prev != nil {
				prev, _ := base64.StdEncoding.DecodeString(*st[gi].Prev)
				v := w.clone()
				v.Stmts[si].Stages[gi].Prev = nil
				emit(v)
				for _, p := range [][]byte{{}, []byte("P"), prev[:len(prev)/2]} {
					if len(p) < len(prev) {
						v := w.clone()
						s := base64.StdEncoding.EncodeToString(p)
						v.Stmts[si].Stages[gi].Prev = &s
						emit(v)
					}
				}
			}
		}
	}
	for _, st := range []string{"rr", "pb0"} {
		if c.Sched.Strategy != st {
			v := *c
			v.Sched.Strategy = st
			out = append(out, v)
		}
	}
	return out
}
