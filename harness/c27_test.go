package h

// C27: job IDs stay stable while jobs run.
//
// Component harness on a fresh lang.NewJobs() table per case with synthetic
// *lang.Process values (the table only looks at HasTerminated). 1-3 tasks add up
// to 8 jobs, terminate them (SetTerminatedState, the way deregisterProcess does) at
// generated simulated times and call GarbageCollect / Get / GetLatest / List in
// between; the root takes a last look when everything is quiet.
//
// Oracle = the statement, as a small model whose job ids are *observed* (Add does
// not return one): the first id a job is seen with is the only id it is ever seen
// with; Get(id) returns the running job that owns id and never a finished one;
// List() is exactly the running set; a job added while job k was running has an id
// greater than k's ("an ID is reused only after every job with that ID or a higher
// one has finished"). Which id a new job gets beyond that, when the table is
// compacted, and which running job GetLatest prefers are not in the statement and
// are not asserted.
// One task: the model is applied in program order. Several tasks: interval rules
// that hold for every interleaving, plus a linearizability check (porcupine) for
// histories of up to 16 task operations.

import (
	"encoding/json"
	"fmt"
	"math"
	"strconv"
	"strings"
	"time"

	"github.com/anishathalye/porcupine"
	"github.com/lmorg/murex/lang"
	"github.com/lmorg/murex/utils/simrt"
)

type c27Op struct {
	K string `json:"k"`           // add | term | gc | get | latest | list | sleep | probe (the command `bg %J` through the interpreter)
	J int    `json:"j,omitempty"` // add/term: job index (0-based); get: job id asked for
	D int    `json:"d,omitempty"` // sleep: milliseconds
}

type c27W struct {
	Jobs  int       `json:"jobs"`
	Tasks [][]c27Op `json:"tasks"`
}

const c27MaxJobs = 8
const c27MaxLin = 16
const c27LinBudget = 200000 // model steps per linearizability search

func init() {
	register(&Harness{Name: "c27", Gen: genC27, Run: runC27, Shrink: shrinkC27, Init: initMurex})
	propHarness["C27"] = "c27"
}

func genC27(r *Rand, tier string) Case {
	var w c27W
	nt := 1 + r.Intn(3)
	class := "sequential"
	budget := 4 + r.Intn(20)
	if nt > 1 {
		class = "concurrent"
		budget = 4 + r.Intn(c27MaxLin-3)
		if r.Intn(4) == 0 {
			class = "concurrent-long"
			budget = 17 + r.Intn(30)
			if tier == "thorough" {
				budget += r.Intn(60)
			}
		}
	}
	w.Tasks = make([][]c27Op, nt)
	var live []int // generated as added, not yet terminated
	var owner [c27MaxJobs]int
	for n := 0; n < budget; {
		t := r.Intn(nt)
		var op c27Op
		switch x := r.Intn(100); {
		case x < 25:
			if w.Jobs >= c27MaxJobs {
				continue
			}
			op = c27Op{K: "add", J: w.Jobs}
			owner[w.Jobs] = t
			live = append(live, w.Jobs)
			w.Jobs++
		case x < 45:
			if len(live) == 0 {
				continue
			}
			i := r.Intn(len(live))
			if r.Intn(3) == 0 {
				i = len(live) - 1 // the newest job ends: the table's tail becomes reusable
			}
			op = c27Op{K: "term", J: live[i]}
			if r.Intn(3) != 0 {
				t = owner[live[i]] // mostly the task that started the job also ends it (a term that overtakes its add is skipped)
			}
			live = append(live[:i], live[i+1:]...)
		case x < 60:
			op = c27Op{K: "gc"}
		case x < 75:
			op = c27Op{K: "get", J: 1 + r.Intn(w.Jobs+2)}
			if r.Intn(12) == 0 {
				op.J = r.Intn(3) - 1 // -1, 0, 1
			} else if nt == 1 && r.Intn(3) == 0 {
				// the way a user names a job: `bg %n` (a running job is "not a stopped process", any other
				// id is an error about the id)
				op.K = "probe"
			}
		case x < 80:
			op = c27Op{K: "latest"}
		case x < 92:
			op = c27Op{K: "list"}
		default:
			op = c27Op{K: "sleep", D: []int{1, 10, 100, 1000, 3000}[r.Intn(5)]}
		}
		w.Tasks[t] = append(w.Tasks[t], op)
		if op.K != "sleep" {
			n++
		}
	}
	return Case{Class: class, W: mustJSON(w), Sched: defaultSched(r, 30+8*budget, 60000, 0)}
}

// ---------------------------------------------------------------- model

type c27State struct {
	Run    uint8             // added and not terminated
	Added  uint8             // ever added
	Id     [c27MaxJobs]int8  // observed id per job (0: not seen yet)
	Before [c27MaxJobs]uint8 // jobs that were running when this one was added
}

type c27In struct {
	K string
	J int
}

type c27Out struct {
	Job  int              // get/latest: job index, -1 nothing (error), -2 a process that is no job of this case
	List [c27MaxJobs]int8 // list: id shown for job j (0: not listed)
}

func c27Bind(st *c27State, j, id int) string {
	if id < 1 || id > math.MaxInt8 {
		return "bad-job-id"
	}
	if st.Id[j] != 0 {
		if int(st.Id[j]) != id {
			return "job-id-changed"
		}
		return ""
	}
	for k := 0; k < c27MaxJobs; k++ {
		if k == j || st.Id[k] == 0 {
			continue
		}
		bit := uint8(1) << uint(k)
		if st.Run&bit != 0 && int(st.Id[k]) == id {
			return "duplicate-job-id"
		}
		if st.Before[j]&bit != 0 && int(st.Id[k]) >= id {
			return "id-reused-early" // k was running when j was added, so j's id must be above k's
		}
		if st.Before[k]&(1<<uint(j)) != 0 && int(st.Id[k]) <= id {
			return "id-reused-early"
		}
	}
	st.Id[j] = int8(id)
	return ""
}

func c27Step(st c27State, in c27In, out c27Out) (c27State, string) {
	seen := func(j int) string { // j was returned / listed: it must be a running job
		bit := uint8(1) << uint(j)
		switch {
		case st.Added&bit == 0:
			return "returned-unadded-job"
		case st.Run&bit == 0:
			return "returned-finished-job"
		}
		return ""
	}
	switch in.K {
	case "add":
		st.Before[in.J] = st.Run
		st.Run |= 1 << uint(in.J)
		st.Added |= 1 << uint(in.J)
	case "term":
		st.Run &^= 1 << uint(in.J)
	case "gc":
	case "get":
		switch {
		case out.Job == -2:
			return st, "returned-unknown-process"
		case out.Job >= 0:
			if cl := seen(out.Job); cl != "" {
				return st, cl
			}
			if cl := c27Bind(&st, out.Job, in.J); cl != "" {
				return st, cl
			}
		default:
			for j := 0; j < c27MaxJobs; j++ {
				if st.Run&(1<<uint(j)) != 0 && st.Id[j] != 0 && int(st.Id[j]) == in.J {
					return st, "running-job-not-found"
				}
			}
		}
	case "probe": // out.Job: -3 the command found a job under that id, -1 it did not
		owner, unknown := false, false
		for j := 0; j < c27MaxJobs; j++ {
			if st.Run&(1<<uint(j)) != 0 {
				if st.Id[j] == 0 {
					unknown = true
				} else if int(st.Id[j]) == in.J {
					owner = true
				}
			}
		}
		if out.Job == -3 && !owner && !unknown {
			return st, "command-found-job-under-free-id"
		}
		if out.Job == -1 && owner {
			return st, "command-did-not-find-running-job"
		}
	case "latest":
		switch {
		case out.Job == -2:
			return st, "returned-unknown-process"
		case out.Job >= 0:
			if cl := seen(out.Job); cl != "" {
				return st, cl
			}
		}
	case "see": // one entry of a List() that ran concurrently with other tasks: job in.J shown with id out.Job (0: not shown)
		if out.Job != 0 {
			if cl := seen(in.J); cl != "" {
				if cl == "returned-finished-job" {
					cl = "list-shows-finished-job"
				}
				return st, cl
			}
			if cl := c27Bind(&st, in.J, out.Job); cl != "" {
				return st, cl
			}
		} else if st.Run&(1<<uint(in.J)) != 0 {
			return st, "list-misses-running-job"
		}
	case "list":
		for j := 0; j < c27MaxJobs; j++ {
			bit := uint8(1) << uint(j)
			if out.List[j] != 0 {
				if cl := seen(j); cl != "" {
					if cl == "returned-finished-job" {
						cl = "list-shows-finished-job"
					}
					return st, cl
				}
			} else if st.Run&bit != 0 {
				return st, "list-misses-running-job"
			}
		}
		for j := 0; j < c27MaxJobs; j++ {
			if out.List[j] != 0 {
				if cl := c27Bind(&st, j, int(out.List[j])); cl != "" {
					return st, cl
				}
			}
		}
	}
	return st, ""
}

// ---------------------------------------------------------------- run

type c27Ev struct {
	Task, Idx int
	Op        c27Op
	Call, Ret int64
	Out       c27Out
	Err       bool
}

func (e c27Ev) String() string {
	who := fmt.Sprintf("t%d", e.Task)
	if e.Task < 0 {
		who = "root"
	}
	s := fmt.Sprintf("[%d..%d] %s ", e.Call, e.Ret, who)
	switch e.Op.K {
	case "add", "term":
		return s + fmt.Sprintf("%s(job%d)", e.Op.K, e.Op.J)
	case "get", "latest":
		arg := ""
		if e.Op.K == "get" {
			arg = fmt.Sprintf("%%%d", e.Op.J)
		}
		switch {
		case e.Out.Job >= 0:
			return s + fmt.Sprintf("%s(%s) -> job%d", e.Op.K, arg, e.Out.Job)
		case e.Out.Job == -2:
			return s + fmt.Sprintf("%s(%s) -> a process that is no job", e.Op.K, arg)
		}
		return s + fmt.Sprintf("%s(%s) -> error", e.Op.K, arg)
	case "probe":
		if e.Out.Job == -3 {
			return s + fmt.Sprintf("`bg %%%d` -> a job that is not stopped", e.Op.J)
		}
		return s + fmt.Sprintf("`bg %%%d` -> no such job", e.Op.J)
	case "list":
		var l []string
		for id := 1; id <= math.MaxInt8; id++ {
			for j, x := range e.Out.List {
				if int(x) == id {
					l = append(l, fmt.Sprintf("%%%d=job%d", id, j))
				}
			}
		}
		return s + "list() -> [" + strings.Join(l, " ") + "]"
	}
	return s + e.Op.K
}

func runC27(c *Case, e *Env) Outcome {
	var w c27W
	if err := json.Unmarshal(c.W, &w); err != nil {
		return Outcome{Verdict: "inconclusive", Clause: "bad-case", Detail: err.Error()}
	}
	if w.Jobs > c27MaxJobs {
		return Outcome{Verdict: "inconclusive", Clause: "bad-case", Detail: "too many jobs"}
	}
	adds := make([]int, c27MaxJobs)
	for _, ops := range w.Tasks {
		for _, op := range ops {
			if (op.K == "add" || op.K == "term") && (op.J < 0 || op.J >= c27MaxJobs) {
				return Outcome{Verdict: "inconclusive", Clause: "bad-case", Detail: "job index out of range"}
			}
			if op.K == "add" {
				if adds[op.J]++; adds[op.J] > 1 {
					return Outcome{Verdict: "inconclusive", Clause: "bad-case", Detail: "job added twice"}
				}
			}
		}
	}
	var (
		hist   []c27Ev
		viol   string
		clause string
		procs  [c27MaxJobs]*lang.Process
		added  [c27MaxJobs]bool
		termed [c27MaxJobs]bool
	)
	fail := func(cl, f string, a ...any) {
		if viol == "" {
			clause, viol = cl, fmt.Sprintf(f, a...)
		}
	}
	jobOf := func(p *lang.Process) int {
		for j, q := range procs {
			if q != nil && q == p {
				return j
			}
		}
		return -2
	}
	res := e.Bubble(c.Sched, func() {
		jobs := lang.NewJobs()
		saved := lang.Jobs
		lang.Jobs = jobs // the table the bg/fg/jobs commands look at
		defer func() { lang.Jobs = saved }()
		do := func(task, idx int, op c27Op) {
			ev := c27Ev{Task: task, Idx: idx, Op: op}
			ev.Out.Job = -1
			switch op.K {
			case "add":
				procs[op.J] = new(lang.Process)
				ev.Call = simrt.Stamp()
				jobs.Add(procs[op.J])
				ev.Ret = simrt.Stamp()
				added[op.J] = true
			case "term":
				if !added[op.J] || termed[op.J] {
					e.Probe("term-skipped-not-added-yet")
					return
				}
				termed[op.J] = true
				ev.Call = simrt.Stamp()
				procs[op.J].SetTerminatedState(true)
				ev.Ret = simrt.Stamp()
			case "gc":
				ev.Call = simrt.Stamp()
				jobs.GarbageCollect()
				ev.Ret = simrt.Stamp()
			case "probe":
				ev.Call = simrt.Stamp()
				r := execBlock(fmt.Sprintf("bg %%%d", op.J), "murex/mxsim-c27")
				ev.Ret = simrt.Stamp()
				if ct := crashText(r.Out + r.Err + r.ExecErr); ct != "" {
					fail("internal-panic", "`bg %%%d` reported: %s", op.J, ct)
				}
				if strings.Contains(r.Err+r.ExecErr, "not a stopped process") {
					ev.Out.Job = -3
				}
				e.Probe("job-named-through-bg-command")
			case "get", "latest":
				var p *lang.Process
				var err error
				ev.Call = simrt.Stamp()
				if op.K == "get" {
					p, err = jobs.Get(op.J)
				} else {
					p, err = jobs.GetLatest()
				}
				ev.Ret = simrt.Stamp()
				ev.Err = err != nil
				if err == nil && p == nil {
					ev.Err = true // nothing returned: same as "no such job" for the caller
					e.Probe("nil-job-without-error")
				}
				if !ev.Err {
					ev.Out.Job = jobOf(p)
				}
			case "list":
				ev.Call = simrt.Stamp()
				l := jobs.List()
				ev.Ret = simrt.Stamp()
				for _, jt := range l {
					if jt == nil || jt.Process == nil {
						fail("list-nil-entry", "List() returned an entry without a process")
						continue
					}
					id, err := strconv.Atoi(strings.TrimPrefix(jt.JobId, "%"))
					if err != nil || !strings.HasPrefix(jt.JobId, "%") || id < 1 || id > math.MaxInt8 {
						fail("bad-job-id", "List() shows job id %q", jt.JobId)
						continue
					}
					j := jobOf(jt.Process)
					if j < 0 {
						fail("returned-unknown-process", "List() shows %s bound to a process nobody added", jt.JobId)
						continue
					}
					if ev.Out.List[j] != 0 {
						fail("job-listed-twice", "List() shows job%d as %%%d and as %%%d", j, ev.Out.List[j], id)
						continue
					}
					for k, x := range ev.Out.List {
						if int(x) == id {
							fail("duplicate-job-id", "List() shows %%%d for job%d and for job%d", id, k, j)
						}
					}
					ev.Out.List[j] = int8(id)
				}
			}
			hist = append(hist, ev)
		}
		done := make(chan struct{}, len(w.Tasks))
		for ti := range w.Tasks {
			ti := ti
			simrt.Go(func() {
				defer func() { done <- struct{}{} }()
				for k, op := range w.Tasks[ti] {
					if op.K == "sleep" {
						time.Sleep(time.Duration(op.D) * time.Millisecond)
						simrt.Yield("c27-sleep")
						continue
					}
					do(ti, k, op)
				}
			})
		}
		for range w.Tasks {
			<-done
			simrt.Yield("c27-join")
		}
		// quiescent: a last look at everything
		do(-1, 0, c27Op{K: "list"})
		do(-1, 1, c27Op{K: "latest"})
		for id := 1; id <= w.Jobs+1; id++ {
			do(-1, 1+id, c27Op{K: "get", J: id})
		}
	})
	if res.Panic != "" {
		return Outcome{Verdict: "panic", Clause: "panic", Detail: res.Panic}
	}
	histText := func() string {
		var l []string
		for _, ev := range hist {
			l = append(l, ev.String())
		}
		return strings.Join(l, "\n")
	}
	if viol != "" {
		return violation(clause, "%s\nhistory:\n%s", viol, histText())
	}
	reused := false
	{
		owner := map[int]int{}
		for _, ev := range hist {
			for j, id := range ev.Out.List {
				if id != 0 {
					if o, ok := owner[int(id)]; ok && o != j {
						reused = true
					}
					owner[int(id)] = j
				}
			}
		}
	}
	if reused {
		e.Probe("job-id-reused")
	}

	if len(w.Tasks) == 1 {
		var st c27State
		for k, ev := range hist {
			var cl string
			before := st
			st, cl = c27Step(st, c27In{K: ev.Op.K, J: ev.Op.J}, ev.Out)
			if cl != "" {
				return violation(cl, "operation %d is not allowed by the statement: %s\nrunning jobs before it: %s\nhistory:\n%s", k, ev.String(), c27Show(before), histText())
			}
			if ev.Op.K == "latest" && ev.Out.Job < 0 && st.Run != 0 {
				e.Probe("latest-empty-while-jobs-run")
			}
		}
		return okOutcome()
	}

	// ---- several tasks: rules that hold whatever the interleaving was
	const inf = int64(math.MaxInt64)
	var addCall, addRet, termCall, termRet [c27MaxJobs]int64
	for j := range addCall {
		addCall[j], addRet[j], termCall[j], termRet[j] = inf, inf, inf, inf
	}
	for _, ev := range hist {
		switch ev.Op.K {
		case "add":
			addCall[ev.Op.J], addRet[ev.Op.J] = ev.Call, ev.Ret
		case "term":
			termCall[ev.Op.J], termRet[ev.Op.J] = ev.Call, ev.Ret
		}
	}
	var ids [c27MaxJobs]int
	observe := func(ev c27Ev, j, id int) string {
		switch {
		case termRet[j] < ev.Call:
			if ev.Op.K == "list" {
				return "list-shows-finished-job"
			}
			return "returned-finished-job"
		case addCall[j] > ev.Ret:
			return "returned-unadded-job"
		}
		if id != 0 {
			if ids[j] != 0 && ids[j] != id {
				return "job-id-changed"
			}
			ids[j] = id
		}
		return ""
	}
	for _, ev := range hist {
		cl := ""
		switch ev.Op.K {
		case "get", "latest":
			if ev.Out.Job == -2 {
				cl = "returned-unknown-process"
			} else if ev.Out.Job >= 0 {
				id := 0
				if ev.Op.K == "get" {
					id = ev.Op.J
				}
				cl = observe(ev, ev.Out.Job, id)
			}
		case "list":
			for j, id := range ev.Out.List {
				if id != 0 && cl == "" {
					cl = observe(ev, j, int(id))
				}
				if id == 0 && cl == "" && addRet[j] < ev.Call && termCall[j] > ev.Ret {
					cl = "list-misses-running-job"
				}
			}
		}
		if cl != "" {
			return violation(cl, "whatever the interleaving, this is not allowed by the statement: %s\nhistory:\n%s", ev.String(), histText())
		}
	}
	for _, ev := range hist { // ids are now known: a Get that found nothing although the owner of that id was running all along
		if ev.Op.K == "get" && ev.Out.Job == -1 {
			for j := range ids {
				if ids[j] != 0 && ids[j] == ev.Op.J && addRet[j] < ev.Call && termCall[j] > ev.Ret {
					return violation("running-job-not-found", "job%d ran throughout this call and owns that id: %s\nhistory:\n%s", j, ev.String(), histText())
				}
			}
		}
	}
	for j := range ids {
		for k := range ids {
			if j != k && ids[j] != 0 && ids[k] != 0 && addRet[k] < addCall[j] && termCall[k] > addRet[j] && ids[j] <= ids[k] {
				return violation("id-reused-early", "job%d was running during the whole Add of job%d, yet job%d got %%%d which is not above %%%d\nhistory:\n%s", k, j, j, ids[j], ids[k], histText())
			}
		}
	}

	// ---- small histories: linearizability against the same model
	nTaskOps := 0
	for _, ev := range hist {
		if ev.Task >= 0 {
			nTaskOps++
		}
	}
	if nTaskOps > c27MaxLin {
		e.Probe("history-too-long-for-linearizability")
		return okOutcome()
	}
	// the search is cut off after a fixed number of model steps (not after wall time): the verdict stays a function of the case
	steps, exhausted := 0, false
	model := porcupine.Model{
		Init: func() interface{} { return c27State{} },
		Step: func(state, input, output interface{}) (bool, interface{}) {
			if steps++; steps > c27LinBudget {
				exhausted = true
				return false, state
			}
			ns, cl := c27Step(state.(c27State), input.(c27In), output.(c27Out))
			return cl == "", ns
		},
	}
	var ops []porcupine.Operation
	for _, ev := range hist {
		cid := ev.Task
		if cid < 0 {
			cid = len(w.Tasks)
		}
		if ev.Op.K == "list" && ev.Task >= 0 {
			// List() reads each job's terminated flag at its own instant while jobs end on their own: the statement
			// cannot mean an atomic snapshot across independent processes, so every entry is its own observation
			for j := 0; j < w.Jobs; j++ {
				ops = append(ops, porcupine.Operation{ClientId: cid, Input: c27In{K: "see", J: j}, Call: ev.Call, Output: c27Out{Job: int(ev.Out.List[j])}, Return: ev.Ret})
			}
			continue
		}
		ops = append(ops, porcupine.Operation{ClientId: cid, Input: c27In{K: ev.Op.K, J: ev.Op.J}, Call: ev.Call, Output: ev.Out, Return: ev.Ret})
	}
	r := porcupine.CheckOperationsTimeout(model, ops, 0)
	switch {
	case exhausted || r == porcupine.Unknown:
		e.Probe("linearizability-search-cut-off")
		return Outcome{Verdict: "inconclusive", Clause: "linearizability-search-cut-off"}
	case r == porcupine.Ok:
		e.Probe("linearizability-checked")
	default:
		return violation("not-linearizable", "no order of these operations that respects call/return order is allowed by the statement's job-table model\nhistory:\n%s", histText())
	}
	return okOutcome()
}

func c27Show(st c27State) string {
	var l []string
	for j := 0; j < c27MaxJobs; j++ {
		if st.Run&(1<<uint(j)) != 0 {
			if st.Id[j] != 0 {
				l = append(l, fmt.Sprintf("job%d=%%%d", j, st.Id[j]))
			} else {
				l = append(l, fmt.Sprintf("job%d=(id not seen yet)", j))
			}
		}
	}
	return "[" + strings.Join(l, " ") + "]"
}

// ---------------------------------------------------------------- shrink

func shrinkC27(c *Case) []Case {
	var w c27W
	json.Unmarshal(c.W, &w)
	var out []Case
	cp := func() c27W {
		var v c27W
		json.Unmarshal(c.W, &v)
		return v
	}
	emit := func(v c27W) { out = append(out, Case{Class: c.Class, W: mustJSON(v), Sched: c.Sched}) }
	if len(w.Tasks) > 1 {
		for i := range w.Tasks {
			v := cp()
			v.Tasks = append(v.Tasks[:i:i], v.Tasks[i+1:]...)
			emit(v)
		}
		// all operations in one task, in task order
		v := cp()
		var all []c27Op
		for _, t := range v.Tasks {
			all = append(all, t...)
		}
		v.Tasks = [][]c27Op{all}
		emit(v)
	}
	for i := range w.Tasks {
		if n := len(w.Tasks[i]); n > 2 {
			v := cp()
			v.Tasks[i] = v.Tasks[i][:n/2]
			emit(v)
			v = cp()
			v.Tasks[i] = v.Tasks[i][n/2:]
			emit(v)
		}
	}
	for i := range w.Tasks {
		for k := range w.Tasks[i] {
			v := cp()
			v.Tasks[i] = append(v.Tasks[i][:k:k], v.Tasks[i][k+1:]...)
			if len(v.Tasks[i]) > 0 || len(v.Tasks) == 1 {
				emit(v)
			}
		}
	}
	if c.Sched.Strategy != "rr" && c.Sched.Strategy != "pb0" {
		for _, st := range []string{"pb0", "rr"} {
			v := Case{Class: c.Class, W: c.W, Sched: c.Sched}
			v.Sched.Strategy = st
			v.Sched.Decisions = nil
			out = append(out, v)
		}
	}
	for i := range w.Tasks {
		for k, op := range w.Tasks[i] {
			if op.K == "sleep" && op.D > 1 {
				v := cp()
				v.Tasks[i][k].D = 1
				emit(v)
			}
		}
	}
	return out
}
