package h

// C04 (&&, || and ; in normal mode) and C05 (try / trypipe): generated chains run
// under seeded schedules and compared with a reference model written from the
// property statements (DESIGN.md Appendix A).

import (
	"encoding/json"
	"fmt"
	"regexp"
	"sort"
	"strings"
)

type chStage struct {
	K    int  `json:"k"`
	Exit int  `json:"exit"`
	Sub  bool `json:"sub,omitempty"` // the first parameter is a sub-shell that leaves a marker p<K> on stderr when it is evaluated
}

type chUnit struct {
	Join   string    `json:"join"` // "" (first) ";" "\n" "&&" "||"
	Stages []chStage `json:"stages"`
	Arrow  bool      `json:"arrow,omitempty"` // stages joined by -> instead of |
}

type chainW struct {
	Mode  string   `json:"mode"` // normal | try | trypipe | fntry | fntrypipe
	Units []chUnit `json:"units"`
	Scheds int     `json:"scheds"` // schedules per program
	Max   int      `json:"max,omitempty"` // pipe buffer limit knob (0 = production value)
}

func init() {
	register(&Harness{Name: "chain-normal", Gen: func(r *Rand, tier string) Case { return genChain(r, tier, false) }, Run: runChain, Shrink: shrinkChain, Init: initMurex})
	register(&Harness{Name: "chain-try", Gen: func(r *Rand, tier string) Case { return genChain(r, tier, true) }, Run: runChain, Shrink: shrinkChain, Init: initMurex})
	propHarness["C04"] = "chain-normal"
	propHarness["C05"] = "chain-try"
}

func genChain(r *Rand, tier string, try bool) Case {
	var w chainW
	w.Mode = "normal"
	if try {
		w.Mode = []string{"try", "trypipe", "try", "trypipe", "fntry", "fntrypipe"}[r.Intn(6)]
	}
	n := 1 + r.Intn(8)
	k := 1
	for i := 0; i < n; i++ {
		var u chUnit
		if i > 0 {
			u.Join = []string{";", "\n", "&&", "||", "&&", "||"}[r.Intn(6)]
		}
		ns := 1
		if r.Intn(3) == 0 {
			ns = 2 + r.Intn(2)
		}
		for s := 0; s < ns; s++ {
			ex := 0
			if r.Intn(3) == 0 {
				ex = 1 + r.Intn(4)
			}
			u.Stages = append(u.Stages, chStage{K: k, Exit: ex, Sub: r.Intn(4) == 0})
			k++
		}
		u.Arrow = r.Bool()
		w.Units = append(w.Units, u)
	}
	w.Scheds = 1
	if tier == "thorough" {
		w.Scheds = 3
	}
	if r.Intn(3) == 0 {
		w.Max = []int{1, 7, 64}[r.Intn(3)]
	}
	return Case{Class: w.Mode, W: mustJSON(w), Sched: interpSched(r, 400)}
}

func (w *chainW) source() string {
	var b strings.Builder
	// two writes to stdout: with a small pipe limit the second one needs somebody to make room
	b.WriteString("function mk { err \"e$1\"; out \"t$1\"; out \"u$1\"; return $2 }\n")
	var chain strings.Builder
	for _, u := range w.Units {
		switch u.Join {
		case "":
		case "\n":
			chain.WriteString("\n")
		case ";":
			chain.WriteString("; ")
		default:
			chain.WriteString(" " + u.Join + " ")
		}
		for i, s := range u.Stages {
			if i > 0 {
				if u.Arrow {
					chain.WriteString(" -> ")
				} else {
					chain.WriteString(" | ")
				}
			}
			if s.Sub {
				// a command that does not run does not evaluate its parameters either
				fmt.Fprintf(&chain, "mk ${ out <err> p%d; out %d } %d", s.K, s.K, s.Exit)
			} else {
				fmt.Fprintf(&chain, "mk %d %d", s.K, s.Exit)
			}
		}
	}
	switch w.Mode {
	case "normal":
		b.WriteString(chain.String())
	case "try", "trypipe":
		b.WriteString(w.Mode + " {\n" + chain.String() + "\n}")
	case "fntry":
		b.WriteString("function cf {\nrunmode try function\n" + chain.String() + "\n}\ncf")
	case "fntrypipe":
		b.WriteString("function cf {\nrunmode trypipe function\n" + chain.String() + "\n}\ncf")
	}
	return b.String()
}

type chainExpect struct {
	out      []string // markers on stdout, in order
	errs     []string // markers on stderr (any order)
	exit     int
	features []string // which statement clauses this program exercises (used to name the failing clause)
}

func (w *chainW) model() chainExpect {
	var x chainExpect
	feat := map[string]bool{}
	midFail := false
	runUnit := func(u *chUnit, pipeSeq bool) int {
		ex := 0
		for i, s := range u.Stages {
			x.errs = append(x.errs, fmt.Sprintf("e%d", s.K))
			if s.Sub {
				x.errs = append(x.errs, fmt.Sprintf("p%d", s.K))
			}
			ex = s.Exit
			last := i == len(u.Stages)-1
			if pipeSeq && s.Exit != 0 && !last {
				// trypipe: a failing stage stops the pipeline; its stdout went to a stage that never ran
				// the command after it is joined by a pipe, not by ||: the block ends here
				feat["trypipe-midpipe-failure"] = true
				midFail = true
				return ex
			}
			if last {
				x.out = append(x.out, fmt.Sprintf("t%d", s.K))
			}
		}
		return ex
	}
	if w.Mode == "normal" {
		prev, skipping := 0, false
		for i := range w.Units {
			u := &w.Units[i]
			run := true
			switch u.Join {
			case "&&":
				if skipping || prev != 0 {
					run = false
				}
			case "||":
				if skipping || prev == 0 {
					run = false
				}
			}
			if run {
				skipping = false
				prev = runUnit(u, false)
			} else {
				if skipping {
					feat["skip-propagates"] = true
				}
				skipping = true
				if len(u.Stages) > 1 {
					feat["skipped-pipeline"] = true
				}
				// a skipped command takes the exit number of the command before it: prev unchanged
			}
		}
		x.exit = prev
	} else {
		seq := strings.HasSuffix(w.Mode, "trypipe")
		prev, skippedPrev := 0, false
		for i := range w.Units {
			u := &w.Units[i]
			if u.Join == "||" && (skippedPrev || prev == 0) {
				if skippedPrev {
					feat["consecutive-or-after-skip"] = true
				}
				if len(u.Stages) > 1 {
					feat["skipped-pipeline"] = true
				}
				skippedPrev = true
				prev = 0
				continue
			}
			skippedPrev = false
			prev = runUnit(u, seq)
			if prev != 0 && (midFail || i+1 >= len(w.Units) || w.Units[i+1].Join != "||") {
				break
			}
		}
		x.exit = prev
	}
	for f := range feat {
		x.features = append(x.features, f)
	}
	sort.Strings(x.features)
	return x
}

var reMarkE = regexp.MustCompile(`(?m)^[ep]\d+$`)

func runChain(c *Case, e *Env) Outcome {
	var w chainW
	if err := json.Unmarshal(c.W, &w); err != nil {
		return Outcome{Verdict: "inconclusive", Clause: "bad-case", Detail: err.Error()}
	}
	src := w.source()
	want := w.model()
	restore := setPipeLimit(w.Max)
	defer restore()
	n := w.Scheds
	if n < 1 {
		n = 1
	}
	for k := 0; k < n; k++ {
		sc := c.Sched
		sc.Seed = mix(c.Sched.Seed, uint64(k))
		if k > 0 {
			sc.Strategy = strategies[int(sc.Seed%uint64(len(strategies)))]
		}
		got, res := e.runProgram(sc, src, 0)
		if res.Panic != "" {
			return Outcome{Verdict: "panic", Clause: "panic", Detail: res.Panic}
		}
		if ct := crashText(got.Out + got.Err + got.ExecErr); ct != "" {
			return violation("internal-panic", "program:\n%s\nreported: %s", src, ct)
		}
		var gotOut []string
		for _, f := range strings.Fields(got.Out) {
			if strings.HasPrefix(f, "t") {
				gotOut = append(gotOut, f)
			}
		}
		gotErr := reMarkE.FindAllString(got.Err, -1)
		sort.Strings(gotErr)
		wantErr := append([]string(nil), want.errs...)
		sort.Strings(wantErr)
		feat := strings.Join(want.features, "+")
		if feat == "" {
			feat = "plain"
		}
		switch {
		case strings.Join(gotErr, " ") != strings.Join(wantErr, " "):
			return violation("ran-set["+feat+"]", "program:\n%s\ncommands that ran (stderr markers): %v\nmodel: %v\nstdout %q exit %d; model stdout %v exit %d", src, gotErr, wantErr, got.Out, got.Exit, want.out, want.exit)
		case strings.Join(gotOut, " ") != strings.Join(want.out, " "):
			return violation("stdout["+feat+"]", "program:\n%s\nstdout %v, model %v (exit %d, model %d)", src, gotOut, want.out, got.Exit, want.exit)
		case got.Exit != want.exit:
			return violation("exit["+feat+"]", "program:\n%s\nexit number %d, model %d (stdout %v)", src, got.Exit, want.exit, gotOut)
		}
	}
	return okOutcome()
}

func shrinkChain(c *Case) []Case {
	var w chainW
	json.Unmarshal(c.W, &w)
	var out []Case
	cp := func() chainW {
		var v chainW
		json.Unmarshal(c.W, &v)
		return v
	}
	emit := func(v chainW) {
		if len(v.Units) > 0 {
			v.Units[0].Join = ""
			out = append(out, Case{Class: c.Class, W: mustJSON(v), Sched: c.Sched})
		}
	}
	for i := range w.Units {
		v := cp()
		v.Units = append(v.Units[:i:i], v.Units[i+1:]...)
		emit(v)
	}
	for i := range w.Units {
		for s := range w.Units[i].Stages {
			if len(w.Units[i].Stages) > 1 {
				v := cp()
				v.Units[i].Stages = append(v.Units[i].Stages[:s:s], v.Units[i].Stages[s+1:]...)
				emit(v)
			}
			if w.Units[i].Stages[s].Sub {
				v := cp()
				v.Units[i].Stages[s].Sub = false
				emit(v)
			}
			if w.Units[i].Stages[s].Exit > 1 {
				v := cp()
				v.Units[i].Stages[s].Exit = 1
				emit(v)
			}
		}
		if w.Units[i].Join == "\n" {
			v := cp()
			v.Units[i].Join = ";"
			emit(v)
		}
		if w.Units[i].Arrow {
			v := cp()
			v.Units[i].Arrow = false
			emit(v)
		}
	}
	if w.Scheds > 1 {
		v := cp()
		v.Scheds = 1
		emit(v)
	}
	if w.Max != 0 {
		v := cp()
		v.Max = 0
		emit(v)
	}
	if w.Mode == "fntry" || w.Mode == "fntrypipe" {
		v := cp()
		v.Mode = strings.TrimPrefix(w.Mode, "fn")
		emit(v)
	}
	for _, st := range []string{"rr", "pb0"} {
		if c.Sched.Strategy != st {
			v := *c
			v.Sched.Strategy = st
			out = append(out, v)
		}
	}
	return out
}
