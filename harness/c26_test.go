package h

// C26: named pipes can be used in any order without crashing the shell.
//
// Component harness on a fresh pipes.NewNamed() per case. 1-4 tasks issue
// CreatePipe/Close/Delete/Get/Dump over the names {a,b,c,null}, move a few tagged
// bytes through pipes they obtained with Get, and sleep around the grace period of
// Close and the retry window of Get. The root then lets >= 6 simulated seconds pass
// so that delayed goroutines fire inside the run: a crash in one of them kills the
// worker, which the driver reports as verdict "panic".
//
// The oracle is a registry model written from the property statement only:
//   - create fails iff the name is live (uniqueness);
//   - close / delete / get on a name that is not live return an error;
//   - after a successful Close(name) returning at t, if nobody re-created the name
//     meanwhile, the name is gone at every instant >= t + 5 s ("a grace period");
//   - two look-ups of one live pipe give the same pipe, and bytes written to a pipe
//     obtained from Get are what readers of that pipe read.
// Not asserted (statement silent): presence during the grace period; the fate of a
// pipe re-created under a name while an older close is still pending; that an
// operation on a live pipe succeeds (the reserved "null" refuses close/delete).
// Names whose liveness the statement leaves open are "maybe": either result is legal.

import (
	"encoding/json"
	"fmt"
	"math"
	"sort"
	"strings"
	"time"

	"github.com/anishathalye/porcupine"
	"github.com/lmorg/murex/lang/pipes"
	"github.com/lmorg/murex/lang/stdio"
	"github.com/lmorg/murex/utils/simrt"
)

type c26Op struct {
	K string `json:"k"`           // create | close | delete | get | dump | write | read | sleep
	N string `json:"n,omitempty"` // pipe name
	D int    `json:"d,omitempty"` // sleep: milliseconds; write: payload length; read: bytes wanted
}

type c26W struct {
	Tasks  [][]c26Op `json:"tasks"`
	Settle int       `json:"settle_ms"` // simulated time the root lets pass after the last op (>= 5000)
}

var c26Names = []string{"a", "b", "c", "null"}

func c26NameIdx(s string) int {
	for i, n := range c26Names {
		if n == s {
			return i
		}
	}
	return -1
}

const c26Grace = int64(5 * time.Second) // "a grace period": only "gone after 5 simulated seconds" is asserted
const c26MaxLin = 16                    // concurrent histories up to this many registry ops go to porcupine
const c26LinBudget = 200000             // model steps per linearizability search

func init() {
	register(&Harness{Name: "c26", Gen: genC26, Run: runC26, Shrink: shrinkC26})
	propHarness["C26"] = "c26"
}

var c26Sleeps = []int{1, 99, 100, 101, 499, 500, 501, 1999, 2000, 2001, 2500, 4999, 5001, 5500}

func c26GenOp(r *Rand) c26Op {
	name := func(null bool) string {
		x := r.Intn(100)
		switch {
		case x < 45:
			return "a"
		case x < 75:
			return "b"
		case x < 90 || !null:
			return "c"
		}
		return "null"
	}
	x := r.Intn(100)
	switch {
	case x < 22:
		return c26Op{K: "create", N: name(true)}
	case x < 42:
		return c26Op{K: "close", N: name(true)}
	case x < 50:
		return c26Op{K: "delete", N: name(true)}
	case x < 60:
		return c26Op{K: "get", N: name(true)}
	case x < 70:
		return c26Op{K: "dump"}
	case x < 80:
		return c26Op{K: "write", N: name(false), D: 1 + r.Intn(4)}
	case x < 88:
		return c26Op{K: "read", N: name(false), D: 1 + r.Intn(6)}
	}
	return c26Op{K: "sleep", D: c26Sleeps[r.Intn(len(c26Sleeps))]}
}

func genC26(r *Rand, tier string) Case {
	var w c26W
	class := "sequential"
	nt, budget := 1, 4+r.Intn(12)
	switch x := r.Intn(10); {
	case x < 3:
	case x < 8:
		class = "concurrent"
		nt = 2 + r.Intn(3)
		budget = 4 + r.Intn(c26MaxLin-3) // registry ops in total: small enough for the linearizability check
	default:
		class = "concurrent-long"
		nt = 2 + r.Intn(3)
		budget = 17 + r.Intn(24)
		if tier == "thorough" {
			budget += r.Intn(40)
		}
	}
	w.Tasks = make([][]c26Op, nt)
	for n := 0; n < budget; {
		t := r.Intn(nt)
		if len(w.Tasks[t]) >= 60 {
			break
		}
		op := c26GenOp(r)
		w.Tasks[t] = append(w.Tasks[t], op)
		if op.K != "sleep" {
			n++
		}
	}
	w.Settle = 6000 + 500*r.Intn(5)
	sc := defaultSched(r, 40+12*budget, 60000, 0)
	if r.Intn(4) == 0 {
		sc.JumpProb = 0.02 // F-clock: the scheduler itself jumps the clock (1 us .. 10 s) at random decisions
		class += "-jumps"
	}
	return Case{Class: class, W: mustJSON(w), Sched: sc}
}

// ---------------------------------------------------------------- model

const (
	c26N = int8(0) // not live
	c26Y = int8(1) // live
	c26M = int8(2) // the statement leaves it open (grace period pending, or re-created under a pending close)
)

type c26Name struct {
	St      int8
	Obj     int8  // pipe object seen by the first look-up since the name became live (-1: none yet)
	ByGrace bool  // St==N because a close's grace period ran out
	Gd      int64 // a close succeeded and nobody re-created the name since: gone at every instant >= Gd (0: no such promise)
	Hz      int64 // until this instant an earlier close may still act on the name (0: none; MaxInt64: unknown)
}

type c26State struct{ N [4]c26Name }

type c26In struct {
	K      string
	Name   int
	Tc, Tr int64 // simulated ns since the start of the run, at call and at return
	TimeOK bool  // the run had no clock jump / long stall: simulated time bounds may be asserted
}

type c26Out struct {
	OK   bool
	Obj  int8
	Mask uint8 // dump: bit i = name i listed
}

// c26Step: sequential specification. Returns the clause that is violated ("" = legal).
func c26Step(st c26State, in c26In, out c26Out) (c26State, string) {
	// time: promises that have fallen due before this operation was even called
	for i := range st.N {
		s := &st.N[i]
		if s.Gd != 0 && in.Tc >= s.Gd {
			s.St, s.ByGrace, s.Gd, s.Obj = c26N, true, 0, -1
		}
		if s.Hz != 0 && in.Tc >= s.Hz {
			s.Hz = 0
		}
	}
	miss := func(s *c26Name, cl string) string {
		if s.ByGrace {
			return "present-after-grace"
		}
		return cl
	}
	if in.K == "dump" {
		for i := range st.N {
			s := &st.N[i]
			listed := out.Mask&(1<<uint(i)) != 0
			switch s.St {
			case c26N:
				if listed {
					return st, miss(s, "gone-name-listed")
				}
			case c26Y:
				if !listed {
					return st, "live-name-not-listed"
				}
			case c26M:
				if s.Hz == 0 { // nothing pending any more: what is seen now is stable
					if listed {
						s.St = c26Y
					} else {
						s.St = c26N
					}
				}
			}
		}
		return st, ""
	}
	s := &st.N[in.Name]
	closed := func() { // a close succeeded, returning at in.Tr
		s.St, s.Obj = c26M, -1
		if !in.TimeOK {
			s.Hz = math.MaxInt64
			return
		}
		if s.Gd == 0 {
			s.Gd = in.Tr + c26Grace
		}
		if in.Tr+c26Grace > s.Hz {
			s.Hz = in.Tr + c26Grace
		}
	}
	settle := func(present bool) { // outcome seen in state M
		if s.Hz != 0 {
			return
		}
		if present {
			s.St = c26Y
		} else {
			s.St = c26N
		}
	}
	switch in.K {
	case "create":
		switch {
		case s.St == c26Y && out.OK:
			return st, "create-duplicate-name"
		case s.St == c26N && !out.OK:
			return st, miss(s, "create-failed-on-free-name")
		case out.OK:
			s.Gd, s.Obj, s.ByGrace = 0, -1, false
			if s.Hz != 0 {
				s.St = c26M // an older close is still pending: fate not specified
			} else {
				s.St = c26Y
			}
		case s.St == c26M:
			settle(true)
		}
	case "close":
		switch {
		case s.St == c26N && out.OK:
			return st, miss(s, "close-missing-succeeded")
		case out.OK:
			closed()
		case s.St == c26M:
			settle(false)
		}
	case "delete":
		switch {
		case s.St == c26N && out.OK:
			return st, miss(s, "delete-missing-succeeded")
		case out.OK:
			s.St, s.Gd, s.Obj, s.ByGrace = c26N, 0, -1, false
		case s.St == c26M:
			settle(false)
		}
	case "get":
		switch {
		case s.St == c26N && out.OK:
			return st, miss(s, "get-missing-succeeded")
		case s.St == c26Y && out.OK:
			if s.Obj >= 0 && s.Obj != out.Obj {
				return st, "get-different-pipe"
			}
			s.Obj = out.Obj
		case s.St == c26M:
			settle(out.OK)
			if s.St == c26Y {
				s.Obj = out.Obj
			}
		}
	}
	return st, ""
}

// ---------------------------------------------------------------- run

type c26Ev struct {
	Task, Idx int
	Op        c26Op
	Call, Ret int64
	Tc, Tr    int64
	OK        bool
	Obj       int8
	Mask      uint8
	Extra     []string // dump: names outside the alphabet
}

func (e c26Ev) String() string {
	res := "ok"
	if !e.OK {
		res = "error"
	}
	switch e.Op.K {
	case "dump":
		var l []string
		for i, n := range c26Names {
			if e.Mask&(1<<uint(i)) != 0 {
				l = append(l, n)
			}
		}
		res = "{" + strings.Join(append(l, e.Extra...), ",") + "}"
	case "get":
		if e.OK {
			res = fmt.Sprintf("pipe#%d", e.Obj)
		}
	}
	who := fmt.Sprintf("t%d", e.Task)
	if e.Task < 0 {
		who = "root"
	}
	return fmt.Sprintf("[%d..%d] %s @%.3fs..%.3fs %s(%s) -> %s", e.Call, e.Ret, who, float64(e.Tc)/1e9, float64(e.Tr)/1e9, e.Op.K, e.Op.N, res)
}

type c26Obj struct {
	io     stdio.Io
	issued map[byte]int // bytes handed to Write (by tag)
	acked  []byte       // bytes of acknowledged writes, in acknowledgement order
	read   []byte       // bytes received by readers, in order of return
	avail  int          // acknowledged and not yet reserved by a reader
}

func runC26(c *Case, e *Env) Outcome {
	var w c26W
	if err := json.Unmarshal(c.W, &w); err != nil {
		return Outcome{Verdict: "inconclusive", Clause: "bad-case", Detail: err.Error()}
	}
	for _, ops := range w.Tasks {
		for _, op := range ops {
			if op.K != "sleep" && op.K != "dump" && c26NameIdx(op.N) < 0 {
				return Outcome{Verdict: "inconclusive", Clause: "bad-case", Detail: "unknown name " + op.N}
			}
		}
	}
	if w.Settle < 5000 {
		w.Settle = 5000
	}
	var (
		n       pipes.Named
		hist    []c26Ev
		objs    []*c26Obj
		viol    string
		clause  string
		initial uint8
		final   uint8
	)
	fail := func(cl, f string, a ...any) {
		if viol == "" {
			clause, viol = cl, fmt.Sprintf(f, a...)
		}
	}
	objOf := func(p stdio.Io) int8 {
		for i, o := range objs {
			if o.io == p {
				return int8(i)
			}
		}
		objs = append(objs, &c26Obj{io: p, issued: map[byte]int{}})
		return int8(len(objs) - 1)
	}
	dumpMask := func(ev *c26Ev) {
		d := n.Dump()
		var keys []string
		for k := range d {
			keys = append(keys, k)
		}
		sort.Strings(keys)
		for _, k := range keys {
			if i := c26NameIdx(k); i >= 0 {
				ev.Mask |= 1 << uint(i)
			} else {
				ev.Extra = append(ev.Extra, k)
			}
		}
		ev.OK = true
	}
	res := e.Bubble(c.Sched, func() {
		t0 := time.Now()
		n = pipes.NewNamed()
		{
			var ev c26Ev
			dumpMask(&ev)
			initial = ev.Mask
		}
		now := func() int64 { return int64(time.Since(t0)) }
		// one registry operation, logged with stamps and simulated times
		do := func(task, idx int, op c26Op) (ev c26Ev, p stdio.Io) {
			ev = c26Ev{Task: task, Idx: idx, Op: op, Obj: -1}
			ev.Call, ev.Tc = simrt.Stamp(), now()
			switch op.K {
			case "create":
				ev.OK = n.CreatePipe(op.N, "std", "") == nil
			case "close":
				ev.OK = n.Close(op.N) == nil
			case "delete":
				ev.OK = n.Delete(op.N) == nil
			case "get":
				var err error
				p, err = n.Get(op.N)
				ev.OK = err == nil
				if ev.OK {
					if p == nil {
						fail("get-nil-pipe", "Get(%s) returned no error and a nil pipe", op.N)
						ev.OK = false
					} else {
						ev.Obj = objOf(p)
					}
				}
			case "dump":
				dumpMask(&ev)
			}
			ev.Ret, ev.Tr = simrt.Stamp(), now()
			hist = append(hist, ev)
			return
		}
		readSome := func(o *c26Obj, want int) bool {
			k := want
			if o.avail < k {
				k = o.avail
			}
			if k == 0 {
				return true
			}
			o.avail -= k // reserve: these bytes are in the buffer and no other reader will ask for them, so Read cannot block
			buf := make([]byte, k)
			m, err := o.io.Read(buf)
			if m == 0 {
				fail("bytes-lost", "a pipe holding at least %d acknowledged, unread byte(s) returned (0, %v) from Read", k, err)
				return false
			}
			o.avail += k - m
			o.read = append(o.read, buf[:m]...)
			for _, b := range buf[:m] {
				if o.issued[b] == 0 {
					fail("bytes-garbage", "Read delivered byte 0x%02x which nobody wrote to that pipe", b)
				}
			}
			return true
		}
		done := make(chan struct{}, len(w.Tasks))
		for ti := range w.Tasks {
			ti := ti
			simrt.Go(func() {
				defer func() { done <- struct{}{} }()
				for k, op := range w.Tasks[ti] {
					switch op.K {
					case "sleep":
						time.Sleep(time.Duration(op.D) * time.Millisecond)
						simrt.Yield("c26-sleep")
					case "write", "read":
						ev, p := do(ti, k, c26Op{K: "get", N: op.N})
						if !ev.OK || p == nil {
							continue
						}
						o := objs[ev.Obj]
						if op.K == "read" {
							readSome(o, op.D)
							continue
						}
						tag := byte(ti<<6 | k&63)
						b := make([]byte, op.D)
						for i := range b {
							b[i] = tag
						}
						o.issued[tag] += len(b)
						m, err := p.Write(b)
						if err == nil && m != len(b) {
							fail("write-short", "Write(%d bytes) returned (%d, nil)", len(b), m)
						}
						if err == nil {
							o.acked = append(o.acked, b...)
							o.avail += len(b)
						} else {
							e.Probe("write-refused")
						}
					default:
						do(ti, k, op)
					}
				}
			})
		}
		for range w.Tasks {
			<-done
			simrt.Yield("c26-join")
		}
		// let delayed goroutines fire inside the run
		time.Sleep(time.Duration(w.Settle) * time.Millisecond)
		simrt.Yield("c26-settle")
		do(-1, 0, c26Op{K: "dump"})
		for _, o := range objs {
			for o.avail > 0 && viol == "" {
				if !readSome(o, o.avail) {
					break
				}
			}
		}
	})
	if res.Panic != "" {
		return Outcome{Verdict: "panic", Clause: "panic", Detail: res.Panic}
	}
	// the bubble is over: every task, including every delayed goroutine, has finished
	{
		var ev c26Ev
		dumpMask(&ev)
		final = ev.Mask
		if len(ev.Extra) > 0 {
			fail("dump-unknown-name", "the table lists names nobody created: %v", ev.Extra)
		}
	}
	histText := func() string {
		var l []string
		for _, ev := range hist {
			l = append(l, ev.String())
		}
		return strings.Join(l, "\n")
	}
	if viol != "" {
		return violation(clause, "%s\nhistory:\n%s", viol, histText())
	}
	for _, ev := range hist {
		if len(ev.Extra) > 0 {
			return violation("dump-unknown-name", "Dump lists names nobody created: %v\nhistory:\n%s", ev.Extra, histText())
		}
	}

	// ---- may simulated time bounds be asserted? Only if no task was kept from running while the clock moved:
	// no injected jump, and the scheduler's own spin-advances (1us doubling) add up to well under a second.
	stall := time.Duration(0)
	for k, d := 0, time.Microsecond; k < res.Sim.Advances; k++ {
		stall += d
		if d < time.Second {
			d *= 2
		}
	}
	timeOK := res.Sim.JumpsN == 0 && stall <= 500*time.Millisecond
	if timeOK {
		e.Probe("time-bounds-asserted")
	} else {
		e.Probe("time-bounds-waived-stall")
	}

	// ---- bytes: per pipe object, what was read is exactly what was acknowledged (issued-but-refused bytes may show up or not)
	sequential := len(w.Tasks) == 1
	for oi, o := range objs {
		if len(o.acked) > 0 {
			e.Probe("bytes-through-pipe")
		}
		cnt := map[byte]int{}
		for _, b := range o.read {
			cnt[b]++
		}
		ack := map[byte]int{}
		for _, b := range o.acked {
			ack[b]++
		}
		var tags []int
		for b := range o.issued {
			tags = append(tags, int(b))
		}
		sort.Ints(tags)
		for _, t := range tags {
			b := byte(t)
			if cnt[b] > o.issued[b] {
				return violation("bytes-duplicated", "pipe#%d delivered %d bytes of write 0x%02x, %d were written\nhistory:\n%s", oi, cnt[b], b, o.issued[b], histText())
			}
			if cnt[b] < ack[b] {
				return violation("bytes-lost", "pipe#%d delivered %d of the %d acknowledged bytes of write 0x%02x\nhistory:\n%s", oi, cnt[b], ack[b], b, histText())
			}
		}
		if sequential && string(o.read) != string(o.acked) {
			return violation("bytes-order", "pipe#%d: one task wrote %x and read %x\nhistory:\n%s", oi, o.acked, o.read, histText())
		}
	}

	// ---- eventually gone: a name whose last successful close/delete was not followed or overlapped by a
	// successful create must be absent once every delayed goroutine has finished
	for i, name := range c26Names {
		var lastRemove, lastCreateRet int64 = -1, -1
		for _, ev := range hist {
			if ev.Op.N != name || !ev.OK {
				continue
			}
			switch ev.Op.K {
			case "close", "delete":
				if ev.Call > lastRemove {
					lastRemove = ev.Call
				}
			case "create":
				if ev.Ret > lastCreateRet {
					lastCreateRet = ev.Ret
				}
			}
		}
		if lastRemove >= 0 && lastCreateRet < lastRemove && final&(1<<uint(i)) != 0 {
			return violation("closed-pipe-never-disappeared", "%q was closed/deleted (stamp %d), never re-created afterwards, and is still in the table after every goroutine has finished\nhistory:\n%s", name, lastRemove, histText())
		}
	}

	// ---- registry model
	init0 := c26State{}
	for i := range init0.N {
		init0.N[i].Obj = -1
		if initial&(1<<uint(i)) != 0 {
			init0.N[i].St = c26Y
		}
	}
	mkIn := func(ev c26Ev) (c26In, c26Out) {
		return c26In{K: ev.Op.K, Name: c26NameIdx(ev.Op.N), Tc: ev.Tc, Tr: ev.Tr, TimeOK: timeOK}, c26Out{OK: ev.OK, Obj: ev.Obj, Mask: ev.Mask}
	}
	for _, ev := range hist {
		switch {
		case ev.Op.K == "get" && ev.Tr-ev.Tc >= int64(500*time.Millisecond) && !ev.OK:
			e.Probe("get-waited-out-retry")
		case ev.Op.K == "get" && ev.Tr-ev.Tc >= int64(100*time.Millisecond) && ev.OK:
			e.Probe("get-rescued-during-retry")
		}
	}
	if sequential {
		st := init0
		for k, ev := range hist {
			in, out := mkIn(ev)
			before := st
			var cl string
			st, cl = c26Step(st, in, out)
			if cl != "" {
				return violation(cl, "operation %d is not allowed by the statement: %s\nmodel state before it (per name a,b,c,null: 0 not live, 1 live, 2 open): %s\nhistory:\n%s", k, ev.String(), c26Show(before), histText())
			}
			if timeOK && k > 0 {
				for i := range st.N {
					if st.N[i].ByGrace && !before.N[i].ByGrace {
						e.Probe("grace-period-crossed")
					}
				}
			}
		}
		return okOutcome()
	}
	if len(hist) > c26MaxLin+1 {
		e.Probe("history-too-long-for-linearizability")
		return okOutcome()
	}
	// the search is cut off after a fixed number of model steps (not after wall time): the verdict stays a function of the case
	steps, exhausted := 0, false
	model := porcupine.Model{
		Init: func() interface{} { return init0 },
		Step: func(state, input, output interface{}) (bool, interface{}) {
			if steps++; steps > c26LinBudget {
				exhausted = true
				return false, state
			}
			ns, cl := c26Step(state.(c26State), input.(c26In), output.(c26Out))
			return cl == "", ns
		},
	}
	var ops []porcupine.Operation
	for _, ev := range hist {
		in, out := mkIn(ev)
		cid := ev.Task
		if cid < 0 {
			cid = len(w.Tasks)
		}
		ops = append(ops, porcupine.Operation{ClientId: cid, Input: in, Call: ev.Call, Output: out, Return: ev.Ret})
	}
	r := porcupine.CheckOperationsTimeout(model, ops, 0)
	switch {
	case exhausted || r == porcupine.Unknown:
		e.Probe("linearizability-search-cut-off")
		return Outcome{Verdict: "inconclusive", Clause: "linearizability-search-cut-off"}
	case r == porcupine.Ok:
		e.Probe("linearizability-checked")
	default:
		return violation("not-linearizable", "no order of these operations that respects call/return order is allowed by the statement's registry model\nhistory:\n%s", histText())
	}
	return okOutcome()
}

func c26Show(st c26State) string {
	var l []string
	for i, s := range st.N {
		x := fmt.Sprintf("%s=%d", c26Names[i], s.St)
		if s.Gd != 0 {
			x += fmt.Sprintf("(gone from %.3fs)", float64(s.Gd)/1e9)
		}
		if s.Hz == math.MaxInt64 {
			x += "(close pending)"
		} else if s.Hz != 0 {
			x += fmt.Sprintf("(close pending until %.3fs)", float64(s.Hz)/1e9)
		}
		l = append(l, x)
	}
	return strings.Join(l, " ")
}

// ---------------------------------------------------------------- shrink

func shrinkC26(c *Case) []Case {
	var w c26W
	json.Unmarshal(c.W, &w)
	var out []Case
	cp := func() c26W {
		var v c26W
		json.Unmarshal(c.W, &v)
		return v
	}
	emit := func(v c26W) { out = append(out, Case{Class: c.Class, W: mustJSON(v), Sched: c.Sched}) }
	if len(w.Tasks) > 1 {
		for i := range w.Tasks { // drop a task
			v := cp()
			v.Tasks = append(v.Tasks[:i:i], v.Tasks[i+1:]...)
			emit(v)
		}
	}
	for i := range w.Tasks { // halves
		if n := len(w.Tasks[i]); n > 2 {
			v := cp()
			v.Tasks[i] = v.Tasks[i][:n/2]
			emit(v)
			v = cp()
			v.Tasks[i] = v.Tasks[i][n/2:]
			emit(v)
		}
	}
	for i := range w.Tasks { // single ops
		for k := range w.Tasks[i] {
			if len(w.Tasks[i]) > 1 || len(w.Tasks) == 1 {
				v := cp()
				v.Tasks[i] = append(v.Tasks[i][:k:k], v.Tasks[i][k+1:]...)
				if len(v.Tasks[i]) > 0 || len(v.Tasks) == 1 {
					emit(v)
				}
			}
		}
	}
	if c.Sched.JumpProb > 0 {
		v := Case{Class: strings.TrimSuffix(c.Class, "-jumps"), W: c.W, Sched: c.Sched}
		v.Sched.JumpProb = 0
		v.Sched.Decisions = nil
		out = append(out, v)
	}
	if c.Sched.Strategy != "rr" && c.Sched.Strategy != "pb0" {
		for _, st := range []string{"pb0", "rr"} {
			v := Case{Class: c.Class, W: c.W, Sched: c.Sched}
			v.Sched.Strategy = st
			v.Sched.Decisions = nil
			out = append(out, v)
		}
	}
	for i := range w.Tasks { // simplify operands
		for k, op := range w.Tasks[i] {
			switch {
			case op.K == "sleep" && op.D > 1:
				for _, d := range []int{1, 2001, 5001} {
					if d < op.D {
						v := cp()
						v.Tasks[i][k].D = d
						emit(v)
					}
				}
			case (op.K == "write" || op.K == "read") && op.D > 1:
				v := cp()
				v.Tasks[i][k].D = 1
				emit(v)
			case op.K == "write" || op.K == "read":
				v := cp()
				v.Tasks[i][k] = c26Op{K: "get", N: op.N}
				emit(v)
			}
			if op.N != "" && op.N != "a" {
				v := cp()
				v.Tasks[i][k].N = "a"
				emit(v)
			}
		}
	}
	if w.Settle > 6000 {
		v := cp()
		v.Settle = 6000
		emit(v)
	}
	return out
}
