package h

// C39: break, continue and return affect only the named block. Generated nested
// foreach/while/if/function programs, each under several seeded schedules,
// compared with a reference interpreter of the statement (DESIGN.md Appendix A).

import (
	"encoding/json"
	"fmt"
	"strings"
)

type lnode struct {
	T     string  `json:"t"` // out foreach while if call break continue return
	K     int     `json:"k,omitempty"`     // marker id | loop bound | return code | function number
	V     string  `json:"v,omitempty"`     // loop variable (foreach/while); for out: variable shown in the marker
	Op    string  `json:"op,omitempty"`    // if: == > true false
	CV    string  `json:"cv,omitempty"`    // if: variable compared
	C     int     `json:"c,omitempty"`     // if: constant compared with
	Name  string  `json:"name,omitempty"`  // break/continue target
	Piped bool    `json:"piped,omitempty"` // foreach: its output goes through `-> regexp s/m/M/`
	Exitn bool    `json:"exitn,omitempty"` // call: followed by `exitnum`
	Kids  []lnode `json:"kids,omitempty"`
	Else  []lnode `json:"else,omitempty"`
}

type c39W struct {
	Funcs  [][]lnode `json:"funcs"`
	Main   []lnode   `json:"main"`
	K      int       `json:"k"`
	Limits []int     `json:"limits"`
}

func init() {
	register(&Harness{Name: "c39", Gen: genC39, Run: runC39, Shrink: shrinkC39, Init: initMurex})
	propHarness["C39"] = "c39"
}

type c39gen struct {
	r      *Rand
	marker int
	loopN  int
	budget int
	nfuncs int
}

// scope: names of enclosing blocks inside the current function, innermost last; loop variables visible
type c39scope struct {
	names []string
	vars  []string
	fname string
}

func (g *c39gen) cond(sc *c39scope) lnode {
	n := lnode{T: "if"}
	if len(sc.vars) > 0 && g.r.Intn(5) != 0 {
		n.CV = sc.vars[g.r.Intn(len(sc.vars))]
		n.Op = []string{"==", "==", ">"}[g.r.Intn(3)]
		n.C = 1 + g.r.Intn(3)
	} else {
		n.Op = []string{"true", "true", "false"}[g.r.Intn(3)]
	}
	return n
}

func (g *c39gen) control(sc *c39scope) (lnode, bool) {
	var opts []lnode
	for _, nm := range sc.names {
		opts = append(opts, lnode{T: "break", Name: nm})
		if nm == "foreach" || nm == "while" {
			opts = append(opts, lnode{T: "continue", Name: nm})
		}
	}
	if sc.fname != "" {
		opts = append(opts, lnode{T: "return", K: g.r.Intn(6)})
		opts = append(opts, lnode{T: "return", K: 1 + g.r.Intn(6)})
	}
	if len(opts) == 0 {
		return lnode{}, false
	}
	return opts[g.r.Intn(len(opts))], true
}

func (g *c39gen) out(sc *c39scope) lnode {
	g.marker++
	n := lnode{T: "out", K: g.marker}
	if len(sc.vars) > 0 {
		n.V = sc.vars[len(sc.vars)-1]
		n.Exitn = g.r.Intn(4) == 0 // for an out node: print the variable through a sub-shell parameter
	}
	return n
}

func (g *c39gen) block(sc *c39scope, depth, n int) []lnode {
	var out []lnode
	for i := 0; i < n; i++ {
		g.budget--
		choice := g.r.Intn(10)
		if depth >= 4 || g.budget <= 0 {
			choice = g.r.Intn(3)
		}
		switch choice {
		case 0, 1:
			out = append(out, g.out(sc))
		case 2: // conditional control transfer
			ifn := g.cond(sc)
			inner := &c39scope{names: append(append([]string{}, sc.names...), "if"), vars: sc.vars, fname: sc.fname}
			if c, ok := g.control(inner); ok {
				if g.r.Bool() {
					ifn.Kids = append(ifn.Kids, g.out(sc))
				}
				ifn.Kids = append(ifn.Kids, c)
				if g.r.Intn(3) == 0 {
					ifn.Kids = append(ifn.Kids, g.out(sc)) // must never run
				}
				out = append(out, ifn)
			} else {
				out = append(out, g.out(sc))
			}
		case 3: // bare control transfer (everything after it in the block is dead)
			if c, ok := g.control(sc); ok && g.r.Intn(3) == 0 {
				out = append(out, c)
			} else {
				out = append(out, g.out(sc))
			}
		case 4, 5:
			g.loopN++
			l := lnode{T: "foreach", K: 1 + g.r.Intn(4), V: fmt.Sprintf("e%d", g.loopN), Piped: g.r.Intn(4) == 0, Exitn: g.r.Bool()}
			inner := &c39scope{names: append(append([]string{}, sc.names...), "foreach"), vars: append(append([]string{}, sc.vars...), l.V), fname: sc.fname}
			l.Kids = g.block(inner, depth+1, 1+g.r.Intn(3))
			out = append(out, l)
		case 6:
			g.loopN++
			l := lnode{T: "while", K: 1 + g.r.Intn(4), V: fmt.Sprintf("w%d", g.loopN)}
			inner := &c39scope{names: append(append([]string{}, sc.names...), "while"), vars: append(append([]string{}, sc.vars...), l.V), fname: sc.fname}
			l.Kids = g.block(inner, depth+1, 1+g.r.Intn(3))
			out = append(out, l)
		case 7:
			ifn := g.cond(sc)
			inner := &c39scope{names: append(append([]string{}, sc.names...), "if"), vars: sc.vars, fname: sc.fname}
			ifn.Kids = g.block(inner, depth+1, 1+g.r.Intn(2))
			if g.r.Bool() {
				ifn.Else = g.block(inner, depth+1, 1+g.r.Intn(2))
			}
			out = append(out, ifn)
		default:
			if sc.fname == "" && g.nfuncs > 0 {
				out = append(out, lnode{T: "call", K: 1 + g.r.Intn(g.nfuncs), Exitn: true})
			} else {
				out = append(out, g.out(sc))
			}
		}
	}
	return out
}

func genC39(r *Rand, tier string) Case {
	// bound the work of a program (statements executed by the reference interpreter) so that the
	// step budget stays a hang detector and never a measure of program size
	for budget := 26; ; budget = budget*2/3 + 1 {
		c, w := genC39Once(r, tier, budget)
		m := &c39model{w: &w}
		m.block(w.Main, map[string]int{}, "")
		if m.steps <= 250 || budget <= 3 {
			return c
		}
	}
}

func genC39Once(r *Rand, tier string, budget int) (Case, c39W) {
	g := &c39gen{r: r, budget: budget}
	var w c39W
	nf := r.Intn(3)
	for i := 0; i < nf; i++ {
		fname := fmt.Sprintf("lf%d", i+1)
		sc := &c39scope{names: []string{fname}, fname: fname}
		body := g.block(sc, 1, 2+r.Intn(3))
		// two out of three functions end with a plain `out`, so that normal completion has exit number 0; the
		// others may end in a loop (possibly one that feeds a pipeline): then only `return n` fixes the exit number
		switch r.Intn(4) {
		case 0: // ends in whatever the generator produced
		case 1: // ends in a loop that feeds a pipeline and returns from inside it: the pipeline tail is still running
			g.loopN++
			l := lnode{T: "foreach", K: 2 + r.Intn(4), V: fmt.Sprintf("e%d", g.loopN), Piped: true, Exitn: r.Bool()}
			inner := &c39scope{names: []string{fname, "foreach"}, vars: []string{l.V}, fname: fname}
			l.Kids = append(l.Kids, g.out(inner))
			l.Kids = append(l.Kids, lnode{T: "if", Op: "==", CV: l.V, C: 1 + r.Intn(l.K), Kids: []lnode{{T: "return", K: 1 + r.Intn(8)}}})
			if r.Bool() {
				l.Kids = append(l.Kids, g.out(inner))
			}
			body = append(body, l)
		default:
			body = append(body, g.out(sc))
		}
		w.Funcs = append(w.Funcs, body)
	}
	g.nfuncs = nf
	w.Main = g.block(&c39scope{}, 0, 2+r.Intn(4))
	w.K = 4
	if tier == "thorough" {
		w.K = 10
	}
	for k := 0; k < w.K; k++ {
		w.Limits = append(w.Limits, []int{0, 0, 1, 5, 64}[r.Intn(5)])
	}
	return Case{Class: "loops", W: mustJSON(w), Sched: interpSched(r, 2500)}, w
}

// ---- printing

func (n *lnode) condSrc() string {
	switch n.Op {
	case "true", "false":
		return n.Op
	}
	return fmt.Sprintf("$%s %s %d", n.CV, n.Op, n.C)
}

func c39Print(b *strings.Builder, nodes []lnode, ind string) {
	for _, n := range nodes {
		b.WriteString(ind)
		switch n.T {
		case "out":
			if n.V != "" && n.Exitn {
				// same text, but the parameter is a sub-shell: the command spends a long time between being
				// started and having its parameters, which is where a cancellation can catch it
				fmt.Fprintf(b, "out \"m%d-${ out $%s }\"", n.K, n.V)
			} else if n.V != "" {
				fmt.Fprintf(b, "out \"m%d-$%s\"", n.K, n.V)
			} else {
				fmt.Fprintf(b, "out m%d", n.K)
			}
		case "break", "continue":
			b.WriteString(n.T + " " + n.Name)
		case "return":
			fmt.Fprintf(b, "return %d", n.K)
		case "call":
			fmt.Fprintf(b, "lf%d", n.K)
			if n.Exitn {
				b.WriteString("\n" + ind + "exitnum")
			}
		case "if":
			b.WriteString("if { " + n.condSrc() + " } then {\n")
			c39Print(b, n.Kids, ind+"  ")
			b.WriteString(ind + "}")
			if len(n.Else) > 0 {
				b.WriteString(" else {\n")
				c39Print(b, n.Else, ind+"  ")
				b.WriteString(ind + "}")
			}
		case "foreach":
			fmt.Fprintf(b, "a [1..%d] -> foreach %s {\n", n.K, n.V)
			c39Print(b, n.Kids, ind+"  ")
			b.WriteString(ind + "}")
			if n.Piped {
				if n.Exitn {
					// the consumer's parameter is a sub-shell: it is still "starting" when the loop upstream
					// breaks or returns
					b.WriteString(" -> regexp \"s/m/${ out M }/\"")
				} else {
					b.WriteString(" -> regexp s/m/M/")
				}
			}
		case "while":
			fmt.Fprintf(b, "%s = 0\n%swhile { $%s < %d } {\n%s  %s = $%s + 1\n", n.V, ind, n.V, n.K, ind, n.V, n.V)
			c39Print(b, n.Kids, ind+"  ")
			b.WriteString(ind + "}")
		}
		b.WriteString("\n")
	}
}

func (w *c39W) source() string {
	var b strings.Builder
	for i, f := range w.Funcs {
		fmt.Fprintf(&b, "function lf%d {\n", i+1)
		c39Print(&b, f, "  ")
		b.WriteString("}\n")
	}
	c39Print(&b, w.Main, "")
	b.WriteString("out end\n")
	return b.String()
}

// ---- reference interpreter of the statement

type c39ctl struct {
	kind string // "" | break | continue | return
	name string
	code int
}

type c39model struct {
	w     *c39W
	out   []string
	piped int
	steps int
	// known-defect variant: a `continue L` written directly in the body of loop L is ignored
	bareContinueNoop bool
	direct           string // name of the loop whose body is the block being interpreted ("" otherwise)
}

func (m *c39model) emit(s string) {
	if m.piped > 0 {
		s = strings.Replace(s, "m", "M", 1)
	}
	m.out = append(m.out, s)
}

func (m *c39model) block(nodes []lnode, env map[string]int, fname string) c39ctl {
	direct := m.direct
	m.direct = ""
	for i := range nodes {
		n := &nodes[i]
		m.steps++
		if n.T == "continue" && m.bareContinueNoop && direct == n.Name {
			continue
		}
		switch n.T {
		case "out":
			if n.V != "" {
				m.emit(fmt.Sprintf("m%d-%d", n.K, env[n.V]))
			} else {
				m.emit(fmt.Sprintf("m%d", n.K))
			}
		case "break", "continue":
			return c39ctl{kind: n.T, name: n.Name}
		case "return":
			return c39ctl{kind: "return", code: n.K}
		case "call":
			fn := fmt.Sprintf("lf%d", n.K)
			c := m.block(m.w.Funcs[n.K-1], map[string]int{}, fn)
			exit := 0
			known := true
			switch {
			case c.kind == "return":
				exit = c.code
			case c.kind == "break" && c.name == fn:
				known = false // the statement does not say what a function ended by break exits with
			default:
				// normal completion: the exit number is that of the last command; only `out` is known to give 0
				body := m.w.Funcs[n.K-1]
				if len(body) == 0 || body[len(body)-1].T != "out" {
					known = false
				}
			}
			if n.Exitn {
				if known {
					m.emit(fmt.Sprint(exit))
				} else {
					m.emit("?")
				}
			}
		case "if":
			var t bool
			switch n.Op {
			case "true":
				t = true
			case "false":
				t = false
			case "==":
				t = env[n.CV] == n.C
			case ">":
				t = env[n.CV] > n.C
			}
			body := n.Kids
			if !t {
				body = n.Else
			}
			c := m.block(body, env, fname)
			if c.kind == "break" && c.name == "if" {
				break
			}
			if c.kind != "" {
				return c
			}
		case "foreach", "while":
			if n.Piped {
				m.piped++
			}
			start := len(m.out)
			var ret c39ctl
			for i := 1; i <= n.K; i++ {
				env[n.V] = i
				m.direct = n.T
				c := m.block(n.Kids, env, fname)
				if c.kind == "continue" && c.name == n.T {
					continue
				}
				if c.kind == "break" && c.name == n.T {
					break
				}
				if c.kind != "" {
					ret = c
					break
				}
			}
			if n.Piped {
				m.piped--
				if ret.kind != "" {
					// A break/continue/return that leaves a loop whose output feeds a pipeline also cancels
					// that pipeline's consumer (it belongs to the cancelled block). What the loop had written
					// but the consumer had not yet passed on is gone; the statement says nothing about it, so
					// every line of this execution of the loop is optional (marked with a leading NUL).
					for i := start; i < len(m.out); i++ {
						if !strings.HasPrefix(m.out[i], "\x00") {
							m.out[i] = "\x00" + m.out[i]
						}
					}
				}
			}
			if ret.kind != "" {
				return ret
			}
		}
	}
	return c39ctl{}
}

func runC39(c *Case, e *Env) Outcome {
	var w c39W
	if err := json.Unmarshal(c.W, &w); err != nil {
		return Outcome{Verdict: "inconclusive", Clause: "bad-case", Detail: err.Error()}
	}
	src := w.source()
	m := &c39model{w: &w}
	m.block(w.Main, map[string]int{}, "")
	m.emit("end")
	want := m.out
	m2 := &c39model{w: &w, bareContinueNoop: true}
	m2.block(w.Main, map[string]int{}, "")
	m2.emit("end")
	// same: lines equals want after deleting some of want's optional lines (leading NUL); "?" matches anything
	same := func(want, lines []string) bool {
		memo := map[[2]int]bool{}
		var rec func(i, j int) bool
		rec = func(i, j int) bool {
			if i == len(want) {
				return j == len(lines)
			}
			k := [2]int{i, j}
			if v, ok := memo[k]; ok {
				return v
			}
			w, opt := want[i], false
			if strings.HasPrefix(w, "\x00") {
				w, opt = w[1:], true
			}
			r := false
			if j < len(lines) && (w == "?" || w == lines[j]) {
				r = rec(i+1, j+1)
			}
			if !r && opt {
				r = rec(i+1, j)
			}
			memo[k] = r
			return r
		}
		return rec(0, 0)
	}
	for k := 0; k < w.K; k++ {
		sc := c.Sched
		sc.Seed = mix(c.Sched.Seed, uint64(k))
		if k > 0 {
			sc.Strategy = strategies[int(sc.Seed%uint64(len(strategies)))]
		}
		lim := 0
		if k < len(w.Limits) {
			lim = w.Limits[k]
		}
		restore := setPipeLimit(lim)
		got, res := e.runProgram(sc, src, 0)
		restore()
		if res.Panic != "" {
			return Outcome{Verdict: "panic", Clause: "panic", Detail: res.Panic}
		}
		desc := fmt.Sprintf("schedule %d (%s, seed %d, buffer limit %d)", k, sc.Strategy, sc.Seed, lim)
		if ct := crashText(got.Out + got.Err + got.ExecErr); ct != "" {
			return violation("internal-panic", "program:\n%s\n%s reported: %s", src, desc, ct)
		}
		lines := strings.Split(strings.TrimRight(got.Out, "\n"), "\n")
		if !same(want, lines) && same(m2.out, lines) {
			return violation("bare-continue-ignored", "program:\n%s\n%s\nstdout markers: %v\nreference:      %v\n(the output is exactly what results when a `continue L` written directly in the body of loop L is ignored)", src, desc, lines, want)
		}
		if !same(want, lines) {
			return violation("marker-sequence", "program:\n%s\n%s\nstdout markers: %v\nreference:      %v\nstderr: %q", src, desc, lines, want, got.Err)
		}
		if got.Exit != 0 {
			return violation("block-exit", "program:\n%s\n%s: exit number %d after `out end`, stderr %q", src, desc, got.Exit, got.Err)
		}
		if got.Err != "" {
			return violation("unexpected-stderr", "program:\n%s\n%s: stderr %q", src, desc, got.Err)
		}
	}
	return okOutcome()
}

func c39ShrinkNodes(nodes []lnode) [][]lnode {
	var out [][]lnode
	for i := range nodes {
		out = append(out, append(append([]lnode{}, nodes[:i]...), nodes[i+1:]...))
	}
	for i, n := range nodes {
		repl := func(nn lnode) {
			v := append([]lnode{}, nodes...)
			v[i] = nn
			out = append(out, v)
		}
		if len(n.Kids) > 0 {
			for _, k := range c39ShrinkNodes(n.Kids) {
				nn := n
				nn.Kids = k
				repl(nn)
			}
		}
		if len(n.Else) > 0 {
			nn := n
			nn.Else = nil
			repl(nn)
		}
		if (n.T == "foreach" || n.T == "while") && n.K > 1 {
			nn := n
			nn.K--
			repl(nn)
		}
		if n.Piped {
			nn := n
			nn.Piped = false
			repl(nn)
		}
		if n.T == "call" && n.Exitn {
			nn := n
			nn.Exitn = false
			repl(nn)
		}
	}
	return out
}

// c39Valid: a shrunk program must still only name enclosing blocks of the current function
func c39Valid(nodes []lnode, names []string, vars map[string]bool, inFunc bool, nfuncs int) bool {
	for _, n := range nodes {
		switch n.T {
		case "out":
			if n.V != "" && !vars[n.V] {
				return false
			}
		case "break", "continue":
			ok := false
			for _, x := range names {
				if x == n.Name {
					ok = true
				}
			}
			if !ok {
				return false
			}
		case "return":
			if !inFunc {
				return false
			}
		case "call":
			if n.K > nfuncs {
				return false
			}
		case "if":
			if n.CV != "" && !vars[n.CV] {
				return false
			}
			nn := append(append([]string{}, names...), "if")
			if !c39Valid(n.Kids, nn, vars, inFunc, nfuncs) || !c39Valid(n.Else, nn, vars, inFunc, nfuncs) {
				return false
			}
		case "foreach", "while":
			nn := append(append([]string{}, names...), n.T)
			v2 := map[string]bool{n.V: true}
			for k := range vars {
				v2[k] = true
			}
			if !c39Valid(n.Kids, nn, v2, inFunc, nfuncs) {
				return false
			}
		}
	}
	return true
}

func shrinkC39(c *Case) []Case {
	var w c39W
	json.Unmarshal(c.W, &w)
	var out []Case
	emit := func(v c39W) {
		if !c39Valid(v.Main, nil, map[string]bool{}, false, len(v.Funcs)) {
			return
		}
		for i, f := range v.Funcs {
			if len(f) == 0 || !c39Valid(f, []string{fmt.Sprintf("lf%d", i+1)}, map[string]bool{}, true, 0) {
				return
			}
		}
		out = append(out, Case{Class: c.Class, W: mustJSON(v), Sched: c.Sched})
	}
	for _, m := range c39ShrinkNodes(w.Main) {
		v := w
		v.Main = m
		emit(v)
	}
	for i := range w.Funcs {
		for _, f := range c39ShrinkNodes(w.Funcs[i]) {
			v := w
			v.Funcs = append([][]lnode{}, w.Funcs...)
			v.Funcs[i] = f
			emit(v)
		}
	}
	if w.K > 1 {
		v := w
		v.K = 1
		emit(v)
	}
	for _, st := range []string{"rr", "pb0"} {
		if c.Sched.Strategy != st {
			v := *c
			v.Sched.Strategy = st
			out = append(out, v)
		}
	}
	return out
}
