package h

import "github.com/anishathalye/porcupine"

var _ = porcupine.CheckOperations
