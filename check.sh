#!/bin/bash
# check.sh <property id> <quick|thorough>: one registered check. Rebuilds from /repo's working tree every time.
cd /verif
[ -x bin/mxsim ] && [ -x bin/mxinstr ] || tools/build.sh >&2 || exit 2
exec bin/mxsim check "$1" --tier "${2:-quick}"
