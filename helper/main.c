/* mxhelper: the peer process of C21. `mxhelper exit N` exits with status N;
 * `mxhelper sig N` dies by signal N with the default disposition (core dumps
 * disabled). It writes one short line to stdout and never reads stdin, so it
 * needs nothing from murex while it runs. */
#include <signal.h>
#include <stdlib.h>
#include <string.h>
#include <sys/resource.h>
#include <unistd.h>

int main(int argc, char **argv) {
	if (write(1, "helper-out\n", 11) != 11) return 97;
	if (argc < 3) return 99;
	int n = atoi(argv[2]);
	if (strcmp(argv[1], "exit") == 0) _exit(n);
	if (strcmp(argv[1], "sig") == 0) {
		struct rlimit rl = {0, 0};
		setrlimit(RLIMIT_CORE, &rl);
		signal(n, SIG_DFL);
		sigset_t set;
		sigemptyset(&set);
		sigaddset(&set, n);
		sigprocmask(SIG_UNBLOCK, &set, NULL);
		kill(getpid(), n);
		for (;;) pause();
	}
	return 98;
}
