//go:build race

package simrt

import "runtime"

func raceDisable() { runtime.RaceDisable() }
func raceEnable()  { runtime.RaceEnable() }
