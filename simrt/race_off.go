//go:build !race

package simrt

func raceDisable() {}
func raceEnable()  {}
