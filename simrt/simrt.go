// Package simrt is the runtime half of mxsim, the deterministic simulator used
// to verify lmorg/murex. It is copied into a scratch copy of the murex tree as
// github.com/lmorg/murex/utils/simrt; instrumented murex code (see mxinstr)
// calls Go / LockFn / Yield / Now. With no simulation active every entry point
// degrades to the plain Go statement it replaced.
//
// One scheduler goroutine, after synctest.Wait() reports that every other
// goroutine of the bubble is durably blocked, releases exactly one parked task
// chosen by the strategy from the run's PRNG (or from a replay file). Real
// goroutines, parked and released one at a time; only the choice is simulated.
package simrt

import (
	"runtime"
	"sync"
	"sync/atomic"
	"testing/synctest"
	"time"
)

type task struct {
	label        string
	ch           chan struct{}
	site         string
	spawn        int
	pinned       int32 // Pin depth
	until        int   // fault actors: not eligible before this step (0 = always eligible)
	waiter       bool  // parked in WaitStep
	prio         int64
	hasPrio      bool
	stagnant     bool // the task has revisited (task,site) pairs several times in a row: it is polling
	repeat       int  // consecutive picks of this task that came back to one of its last few sites
	recent       [4]string
	recentN      int
	delayChecked bool // delay bounding has been decided for this freshly started task
}

// Verdict of a simulated run.
type Verdict int

const (
	OK Verdict = iota
	Deadlock
	StepBudget
	SimTimeBudget
)

func (v Verdict) String() string {
	switch v {
	case OK:
		return "ok"
	case Deadlock:
		return "deadlock"
	case StepBudget:
		return "hang-steps"
	case SimTimeBudget:
		return "hang-simtime"
	}
	return "?"
}

// Config is everything that decides a schedule.
type Config struct {
	Seed      uint64
	Strategy  string // rw | pct1 | pct2 | pct3 | pb0..pb4 | rr
	Decisions []int  // replay prefix: k>=0 candidate index, k<0 time jump index -(k+1)
	MaxSteps  int
	MaxSim    time.Duration
	EstLen    int     // rough run length, used to place pct/pb change points
	JumpProb  float64 // probability per decision of an F-clock jump (0 = never)
	Jumps     []time.Duration
	Trace     bool
	Record    bool    // record decisions
	DelayProb float64 // probability that a freshly started goroutine is held back for 20-420 decisions
}

type Sim struct {
	cfg    Config
	mu     sync.Mutex
	parked []*task
	tasks  sync.Map // goid -> *task
	rng    splitmix

	Steps    int
	Switches int
	Advances int
	JumpsN   int
	Delayed  int
	MaxTasks int
	Hash     uint64
	Diverged bool
	Anon     int32
	Leaked   int32
	RootDone bool

	live     int32
	novel    map[string]struct{}
	ever     map[string]struct{}
	stagn    int
	delta    time.Duration
	wake     chan struct{}
	start    time.Time
	nowTick  int64
	lastLbl  string
	minPrio  int64
	change   []int // steps at which pct demotes / pb preempts
	decided  []int
	trace    []string
	stamp    int64
	probes   map[string]int
	probeMu  sync.Mutex
	cands    []*task
	schedGID int64
	elapsed  time.Duration
}

var cur atomic.Pointer[Sim]

type splitmix struct{ s uint64 }

//go:norace
func (r *splitmix) next() uint64 {
	r.s += 0x9e3779b97f4a7c15
	z := r.s
	z = (z ^ (z >> 30)) * 0xbf58476d1ce4e5b9
	z = (z ^ (z >> 27)) * 0x94d049bb133111eb
	return z ^ (z >> 31)
}

//go:norace
func (r *splitmix) intn(n int) int {
	if n <= 1 {
		return 0
	}
	return int(r.next() % uint64(n))
}

//go:norace
func (r *splitmix) float() float64 { return float64(r.next()>>11) / (1 << 53) }

// Now replaces time.Now in instrumented code: the bubble's fake clock plus a
// strictly increasing logical microsecond (a real clock never returns the same
// instant twice to one observer; murex relies on that in ForkManagement.add).
//
//go:norace
func Now() time.Time {
	s := cur.Load()
	if s == nil || !inBubble() {
		return time.Now()
	}
	return time.Now().Add(time.Duration(atomic.AddInt64(&s.nowTick, 1)) * time.Microsecond)
}

//go:norace
func goid() int64 {
	var buf [64]byte
	n := runtime.Stack(buf[:], false)
	var id int64
	for i := len("goroutine "); i < n; i++ {
		c := buf[i]
		if c < '0' || c > '9' {
			break
		}
		id = id*10 + int64(c-'0')
	}
	return id
}

//go:norace
func New(cfg Config) *Sim {
	if cfg.MaxSteps == 0 {
		cfg.MaxSteps = 1000000
	}
	if cfg.MaxSim == 0 {
		cfg.MaxSim = 100000 * time.Hour
	}
	if cfg.EstLen == 0 {
		cfg.EstLen = 200
	}
	if cfg.Strategy == "" {
		cfg.Strategy = "rw"
	}
	if len(cfg.Jumps) == 0 {
		cfg.Jumps = []time.Duration{time.Microsecond, time.Millisecond, 100 * time.Millisecond, time.Second, 2 * time.Second, 10 * time.Second}
	}
	s := &Sim{cfg: cfg, novel: map[string]struct{}{}, ever: map[string]struct{}{}, delta: time.Microsecond,
		wake: make(chan struct{}, 1), parked: make([]*task, 0, 4096), cands: make([]*task, 0, 4096), probes: map[string]int{}}
	s.rng.s = cfg.Seed
	if cfg.Record {
		s.decided = make([]int, 0, 1<<16)
	}
	nchange := 0
	switch cfg.Strategy {
	case "pct1", "pb1":
		nchange = 1
	case "pct2", "pb2":
		nchange = 2
	case "pct3", "pb3":
		nchange = 3
	case "pb4":
		nchange = 4
	}
	for i := 0; i < nchange; i++ {
		s.change = append(s.change, s.rng.intn(cfg.EstLen))
	}
	return s
}

// Decisions returns the recorded decision list (Config.Record).
func (s *Sim) Decisions() []int { return s.decided }

// TraceLog returns label@site per decision (Config.Trace).
func (s *Sim) TraceLog() []string { return s.trace }

// SimElapsed is the simulated time covered so far.
func (s *Sim) SimElapsed() time.Duration { return s.elapsed }

// Probes returns a copy of the probe counters.
func (s *Sim) Probes() map[string]int {
	s.probeMu.Lock()
	defer s.probeMu.Unlock()
	m := make(map[string]int, len(s.probes))
	for k, v := range s.probes {
		m[k] = v
	}
	return m
}

// Probe bumps a named reach counter ("this rare condition was hit").
//
//go:norace
func Probe(name string) {
	s := cur.Load()
	if s == nil {
		return
	}
	raceDisable()
	s.probeMu.Lock()
	s.probes[name]++
	s.probeMu.Unlock()
	raceEnable()
}

// Stamp returns the next global event sequence number (for invoke/return
// stamps of recorded histories). Only one task runs at a time, so stamp order
// is real order.
//
//go:norace
func Stamp() int64 {
	s := cur.Load()
	if s == nil {
		return 0
	}
	return atomic.AddInt64(&s.stamp, 1)
}

// Step returns the number of decisions taken so far.
//
//go:norace
func Step() int {
	s := cur.Load()
	if s == nil {
		return 0
	}
	return s.Steps
}

// Active reports whether the calling goroutine is a task of a running simulation.
//
//go:norace
func Active() bool {
	s := cur.Load()
	return s != nil && inBubble()
}

// Go replaces the go statement (rule R1).
//
//go:norace
func Go(fn func(), sites ...string) {
	raceDisable()
	s := cur.Load()
	var parent *task
	if s != nil {
		parent = s.self()
	}
	if parent == nil {
		raceEnable()
		go fn() // goroutine-creation edge stays visible to the race detector
		return
	}
	parent.spawn++
	child := &task{label: parent.label + "." + itoa(parent.spawn)}
	atomic.AddInt32(&s.live, 1)
	raceEnable()
	go goBody(s, child, fn) // creation edge visible
}

//go:norace
func goBody(s *Sim, child *task, fn func()) {
	raceDisable()
	id := goid()
	s.tasks.Store(id, child)
	s.yield(child, "spawn")
	raceEnable()
	defer goExit(s, id)
	fn()
}

//go:norace
func goExit(s *Sim, id int64) {
	raceDisable()
	s.tasks.Delete(id)
	atomic.AddInt32(&s.live, -1)
	select {
	case s.wake <- struct{}{}:
	default:
	}
	raceEnable()
}

//go:norace
func itoa(i int) string {
	if i == 0 {
		return "0"
	}
	var b [20]byte
	p := len(b)
	for i > 0 {
		p--
		b[p] = byte('0' + i%10)
		i /= 10
	}
	return string(b[p:])
}

// synctest's fake clock starts at 2000-01-01; anything later is a goroutine
// outside the bubble (murex starts some at package init).
//
//go:norace
func inBubble() bool { return time.Now().Unix() < 1262304000 } // 2010-01-01; Unix() needs no time.Local (lazily initialised under a sync.Once)

//go:norace
func (s *Sim) self() *task {
	id := goid()
	if t, ok := s.tasks.Load(id); ok {
		return t.(*task)
	}
	if id == s.schedGID || !inBubble() {
		return nil
	}
	n := atomic.AddInt32(&s.Anon, 1)
	t := &task{label: "anon" + itoa(int(n))}
	s.tasks.Store(id, t)
	return t
}

// Yield is a scheduling point (rules R3, R4, R6).
//
//go:norace
func Yield(site string) {
	s := cur.Load()
	if s == nil {
		return
	}
	raceDisable()
	if t := s.self(); t != nil {
		s.yield(t, site)
	}
	raceEnable()
}

// Pin makes the calling task the only one the scheduler runs until the returned function is called (while it is
// able to run). For resources whose real implementation blocks other users on a lock the simulator
// cannot see (an open sqlite transaction): the others could not have made progress there anyway.
//
//go:norace
func Pin() (unpin func()) {
	s := cur.Load()
	if s == nil {
		return func() {}
	}
	raceDisable()
	t := s.self()
	raceEnable()
	if t == nil {
		return func() {}
	}
	atomic.AddInt32(&t.pinned, 1)
	var once int32
	return func() {
		if atomic.CompareAndSwapInt32(&once, 0, 1) {
			atomic.AddInt32(&t.pinned, -1)
		}
	}
}

// WaitStep parks the calling task (a fault actor of the harness) until the
// scheduler has taken at least k decisions, or until nothing else can run.
//
//go:norace
func WaitStep(k int) {
	s := cur.Load()
	if s == nil {
		return
	}
	raceDisable()
	if t := s.self(); t != nil {
		t.until = k
		t.waiter = true
		s.yield(t, "waitstep")
		t.waiter = false
		t.until = 0
	}
	raceEnable()
}

//go:norace
func (s *Sim) yield(t *task, site string) {
	raceDisable()
	t.site = site
	t.ch = make(chan struct{})
	s.mu.Lock()
	s.parked = append(s.parked, t)
	s.mu.Unlock()
	select {
	case s.wake <- struct{}{}:
	default:
	}
	<-t.ch
	raceEnable()
}

// LockFn replaces X.Lock()/X.RLock() (rule R2): yield, TryLock, retry. A task
// can therefore be parked while holding a murex lock without ever really
// blocking another one (a really blocked mutex is not durably blocked and
// would stall synctest.Wait).
//
//go:norace
func LockFn(lock func(), try func() bool, site string) {
	s := cur.Load()
	if s == nil {
		lock()
		return
	}
	raceDisable()
	t := s.self()
	if t == nil {
		raceEnable()
		lock()
		return
	}
	for {
		s.yield(t, site)
		raceEnable()
		ok := try() // the program's own acquire edge must stay visible
		if ok {
			return
		}
		raceDisable()
	}
}

//go:norace
func (s *Sim) hashStr(key string, n int) {
	h := s.Hash
	if h == 0 {
		h = 14695981039346656037
	}
	for i := 0; i < len(key); i++ {
		h = (h ^ uint64(key[i])) * 1099511628211
	}
	h = (h ^ uint64(n)) * 1099511628211
	s.Hash = h
}

//go:norace
func (s *Sim) nextDecision(n int) (k int, fromReplay bool) {
	if s.Steps+s.JumpsN < len(s.cfg.Decisions) {
		return s.cfg.Decisions[s.Steps+s.JumpsN], true
	}
	return 0, false
}

//go:norace
func (s *Sim) isChange() bool {
	for _, c := range s.change {
		if c == s.Steps {
			return true
		}
	}
	return false
}

// choose picks an index into s.cands (sorted by label).
//
//go:norace
func (s *Sim) choose() int {
	c := s.cands
	n := len(c)
	if n == 1 {
		return 0
	}
	switch s.cfg.Strategy[:2] {
	case "rr":
		for i, t := range c {
			if t.label > s.lastLbl {
				return i
			}
		}
		return 0
	case "pc": // PCT: highest priority runs; d change points demote the running task
		for _, t := range c {
			if !t.hasPrio {
				t.hasPrio = true
				t.prio = int64(s.rng.next()>>2) + 1
			}
		}
		best := 0
		for i, t := range c {
			if t.prio > c[best].prio {
				best = i
			}
		}
		if s.isChange() {
			s.minPrio--
			c[best].prio = s.minPrio
			best = 0
			for i, t := range c {
				if t.prio > c[best].prio {
					best = i
				}
			}
		}
		return best
	case "pb": // run to completion with k preemptions
		if s.isChange() {
			return s.rng.intn(n)
		}
		for i, t := range c {
			if t.label == s.lastLbl && !t.stagnant {
				return i
			}
		}
		for i, t := range c {
			if t.label > s.lastLbl {
				return i
			}
		}
		return 0
	default: // rw: uniform random walk; pollers that are going round in circles weigh 1/8
		total := 0
		for _, t := range c {
			if t.stagnant {
				total++
			} else {
				total += 8
			}
		}
		r := s.rng.intn(total)
		for i, t := range c {
			w := 8
			if t.stagnant {
				w = 1
			}
			if r < w {
				return i
			}
			r -= w
		}
		return n - 1
	}
}

// Run executes root as task "r" under the scheduler; must be called inside a
// synctest bubble. It returns when every task has finished (OK), when nothing
// can ever run again (Deadlock) or when a budget is exhausted.
//
//go:norace
func (s *Sim) Run(root func()) (verdict Verdict) {
	cur.Store(s)
	defer cur.Store(nil)
	defer func() { s.elapsed = time.Since(s.start) }()
	s.schedGID = goid()
	s.start = time.Now()
	rt := &task{label: "r"}
	atomic.AddInt32(&s.live, 1)
	// the scheduler uses timers while the detector ignores its synchronisation events: initialise the
	// runtime's lazily created timer settings (a sync.Once inside package time) here, with the detector
	// listening, so that the Once is never first run by a task and then read "unsynchronised" by us
	warm := time.NewTimer(time.Hour)
	warm.Stop()
	_ = time.Now().Year() // same for time.Local (initLocal runs under a sync.Once)
	// the root goroutine is created with the race detector listening: what the caller prepared
	// before Run happens-before everything the root task does
	go func() {
		raceDisable()
		id := goid()
		s.tasks.Store(id, rt)
		s.yield(rt, "root")
		raceEnable()
		defer func() {
			raceDisable()
			s.RootDone = true
			s.tasks.Delete(id)
			atomic.AddInt32(&s.live, -1)
			select {
			case s.wake <- struct{}{}:
			default:
			}
			raceEnable()
		}()
		root()
	}()
	raceDisable()
	defer raceEnable()
	for {
		synctest.Wait()
		s.mu.Lock()
		// eligible candidates
		s.cands = s.cands[:0]
		waiters := 0
		for _, t := range s.parked {
			if t.until > s.Steps {
				waiters++
				continue
			}
			s.cands = append(s.cands, t)
		}
		// pinned tasks (Pin): while one of them can run, nobody else does
		np := 0
		for _, t := range s.cands {
			if atomic.LoadInt32(&t.pinned) > 0 {
				s.cands[np] = t
				np++
			}
		}
		if np > 0 {
			s.cands = s.cands[:np]
		}
		n := len(s.cands)
		if len(s.parked) > s.MaxTasks {
			s.MaxTasks = len(s.parked)
		}
		if n == 0 {
			live := int(atomic.LoadInt32(&s.live))
			if waiters > 0 {
				// nothing else can run now (every other task is finished or blocked on a channel or a
				// timer): fire the earliest fault actor
				var first *task
				for _, t := range s.parked {
					if first == nil || t.until < first.until || (t.until == first.until && t.label < first.label) {
						first = t
					}
				}
				first.until = 0
				s.mu.Unlock()
				continue
			}
			s.mu.Unlock()
			if live == 0 {
				return OK
			}
			// everything is blocked on channels/timers: let the clock run to the next timer
			select {
			case <-s.wake:
			case <-time.After(time.Hour):
				if s.RootDone {
					s.Leaked = int32(live)
					return OK
				}
				return Deadlock
			}
			continue
		}
		if time.Since(s.start) > s.cfg.MaxSim {
			s.mu.Unlock()
			return SimTimeBudget
		}
		if s.stagn >= 4*n+8 {
			// only pollers going round in circles: let simulated time pass (always legal)
			s.stagn = 0
			s.novel = map[string]struct{}{}
			d := s.delta
			if s.delta < time.Second {
				s.delta *= 2
			}
			s.mu.Unlock()
			s.Advances++
			time.Sleep(d)
			continue
		}
		// deterministic order: arrival order is not
		c := s.cands
		for i := 1; i < len(c); i++ {
			for j := i; j > 0 && c[j].label < c[j-1].label; j-- {
				c[j], c[j-1] = c[j-1], c[j]
			}
		}
		// delay bounding: a goroutine that has just been started may be held back for a while (its `go`
		// statement returned long ago, the goroutine has not run yet). Decided here, by the scheduler, in
		// label order, so that the draws from the PRNG are deterministic.
		if s.cfg.DelayProb > 0 {
			delayed := false
			for _, t := range c {
				if t.site == "spawn" && !t.delayChecked {
					t.delayChecked = true
					if s.rng.float() < s.cfg.DelayProb {
						t.until = s.Steps + 20 + s.rng.intn(400)
						s.Delayed++
						delayed = true
					}
				}
			}
			if delayed {
				s.mu.Unlock()
				continue
			}
		}
		// decision
		k, replayed := s.nextDecision(n)
		if !replayed {
			if s.cfg.JumpProb > 0 && s.rng.float() < s.cfg.JumpProb {
				k = -1 - s.rng.intn(len(s.cfg.Jumps))
			} else {
				k = s.choose()
			}
		}
		if k < 0 {
			j := -1 - k
			if j >= len(s.cfg.Jumps) {
				s.Diverged = true
				j = j % len(s.cfg.Jumps)
			}
			if s.cfg.Record {
				s.decided = append(s.decided, k)
			}
			s.hashStr("jump", j)
			s.JumpsN++
			s.mu.Unlock()
			time.Sleep(s.cfg.Jumps[j]) // F-clock: every task stalls, timers inside the window fire
			continue
		}
		if k >= n {
			s.Diverged = true
			k = k % n
		}
		t := c[k]
		// remove from parked
		for i, p := range s.parked {
			if p == t {
				copy(s.parked[i:], s.parked[i+1:])
				s.parked = s.parked[:len(s.parked)-1]
				break
			}
		}
		key := t.label + "@" + t.site
		s.hashStr(key, n)
		if s.cfg.Record {
			s.decided = append(s.decided, k)
		}
		if s.cfg.Trace {
			s.trace = append(s.trace, key)
		}
		if _, seen := s.novel[key]; !seen {
			s.novel[key] = struct{}{}
			s.stagn = 0
			if _, e := s.ever[key]; !e {
				s.ever[key] = struct{}{}
				s.delta = time.Microsecond
			}
		} else {
			s.stagn++
		}
		// Is this task polling? A polling loop goes round two or three sites; ordinary code also comes back
		// to a site (a second State.Set, the next loop iteration) but not within its last few picks. Only a
		// task that has done that several times in a row is treated as spinning: demoting on the first
		// repeat turned PCT into round robin (a low-priority task was never starved for long).
		inRecent := false
		for _, r := range t.recent {
			if r == t.site {
				inRecent = true
			}
		}
		t.recent[t.recentN%len(t.recent)] = t.site
		t.recentN++
		if inRecent {
			t.repeat++
		} else {
			t.repeat = 0
		}
		t.stagnant = t.repeat >= 6
		if t.hasPrio && t.repeat >= 6 { // PCT: a spinning task yields the processor
			s.minPrio--
			t.prio = s.minPrio
			t.repeat = 0
		}
		if t.label != s.lastLbl {
			s.Switches++
			s.lastLbl = t.label
		}
		s.mu.Unlock()
		s.Steps++
		if s.Steps > s.cfg.MaxSteps {
			// put it back so the bubble stays consistent; the worker exits anyway
			return StepBudget
		}
		close(t.ch)
	}
}
