#!/bin/bash
# buildworker.sh <scratch dir> [-race]: build the worker test binary against $S/tree
set -e
S=$1; shift
export GOFLAGS=-mod=mod GOPROXY=off GOSUMDB=off GOTOOLCHAIN=local
rm -rf "$S/h"; mkdir -p "$S/h"
cp /verif/harness/*.go "$S/h/"
cat > "$S/h/go.mod" <<EOF
module verif/h

go 1.26

require (
	github.com/anishathalye/porcupine v1.3.0
	github.com/lmorg/murex v0.0.0
)

replace github.com/lmorg/murex => ../tree
EOF
cp "$S/tree/go.sum" "$S/h/go.sum"
cat /verif/harness/go.sum.extra >> "$S/h/go.sum" 2>/dev/null || true
cd "$S/h"
go1.26.8 mod tidy >/dev/null 2>&1 || true
go1.26.8 test -c -vet=off -trimpath "$@" -o "$S/worker.test" .
