#!/bin/bash
# seed_ingest_script.sh <seed-id> <prop> <patch> <script.mx> <notes.md> <cases-or-""> <test pkgs...>
# like seed_ingest.sh for a demonstration that is a murex script exiting 0 (pass) / non-zero (fail).
set -u
sid=$1; prop=$2; patch=$3; script=$4; notes=$5; n=$6; shift 6
D=/verif/seeded/$sid; mkdir -p $D/demo
cp "$patch" $D/patch.diff; cp "$script" $D/demo/; [ -f "$notes" ] && cp "$notes" $D/notes.md
W=/tmp/wt-verify; B=/tmp/wt-verify-bin; mkdir -p $B/home
if [ ! -d $W ]; then git -C /repo worktree add -q --detach $W HEAD || exit 2; fi
{
cd $W && git checkout -q --detach "$(git -C /repo rev-parse HEAD)" && git checkout -q -- . && git clean -fdq
go build -o $B/murex-base . 
echo "== without the change: demo"; (cd $D/demo && HOME=$B/home timeout 90 $B/murex-base "$(basename "$script")" >/dev/null 2>&1; echo "exit=$?")
git apply $D/patch.diff || echo "PATCH DOES NOT APPLY"
echo "== with the change: build"; go build -o $B/murex-mut . 2>&1 | tail -3
echo "== with the change: demo (expected to FAIL)"; (cd $D/demo && HOME=$B/home timeout 90 $B/murex-mut "$(basename "$script")" 2>&1 | tail -4; echo "exit=${PIPESTATUS[0]}")
echo "== with the change: existing tests of touched packages"; go test -count=1 -vet=off "$@" 2>&1 | tail -8
git checkout -q -- . && git clean -fdq
} > $D/verify.log 2>&1
/verif/tools/evalmut.sh $D/patch.diff "$prop" $n > $D/check-$prop.log 2>&1
python3 - "$D" "$sid" "$prop" "$n" "$(basename "$script")" <<'P'
import json,sys,re
D,sid,prop,n,script=sys.argv[1:6]
v=open(D+'/verify.log').read()
def sect(a,b):
    i=v.find(a); j=v.find(b) if b else len(v)
    return v[i:j] if i>=0 else ''
log=open(f'{D}/check-{prop}.log').read()
rc=re.search(r'evalmut: exit=(\d+)',log)
groups=sorted(set(re.findall(r'VIOLATION property=\S+ replay=\S*/'+prop+r'-([^/]*?)-\d+\.json',log)))
m={"seed_id":sid,"property":prop,"breaks":"see notes.md","needs_to_manifest":"see notes.md",
 "demonstration":{"file":"demo/"+script,"command":"HOME=<tmp> timeout 90 <murex built from the tree> "+script+"  (exit 0 = pass)"},
 "confirmed_in_scratch_worktree":{
  "demo_passes_without_change":"exit=0" in sect('== without the change','== with the change: build'),
  "builds_with_change":'PATCH DOES NOT APPLY' not in v,
  "demo_fails_with_change":"exit=0" not in sect('== with the change: demo','== with the change: existing'),
  "existing_tests_pass_with_change":'FAIL' not in sect('== with the change: existing',None)},
 "check_runs":[{"property_check":prop,"command":f"tools/evalmut.sh seeded/{sid}/patch.diff {prop} {n}".strip(),"exit_code":int(rc.group(1)) if rc else None,"detected":bool(rc and rc.group(1)=='1'),"violation_groups":groups}]}
m['detected_by']=[prop] if m['check_runs'][0]['detected'] else []
json.dump(m,open(D+'/meta.json','w'),indent=1)
print(sid,json.dumps(m['confirmed_in_scratch_worktree']),m['check_runs'][0]['exit_code'],groups)
P
