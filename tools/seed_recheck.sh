#!/bin/bash
# seed_recheck.sh <seed-id> <prop> [cases]: run <prop>'s quick check against seeded/<seed-id>/patch.diff (applied to
# /repo and undone) and record the outcome in that seed's meta.json (check_runs list).
sid=$1; prop=$2; n=${3:-}
D=/verif/seeded/$sid
/verif/tools/evalmut.sh $D/patch.diff "$prop" $n > $D/check-$prop.log 2>&1
python3 - "$D" "$prop" "$n" <<'P'
import json,sys,re,os
D,prop,n=sys.argv[1:4]
log=open(f'{D}/check-{prop}.log').read()
rc=re.search(r'evalmut: exit=(\d+)',log)
clauses=sorted(set(re.findall(r'VIOLATION property=\S+ replay=\S*/'+prop+r'-([^/]*?)-\d+\.json',log)))
mp=f'{D}/meta.json'
m=json.load(open(mp)) if os.path.exists(mp) else {"seed_id":os.path.basename(D)}
runs=[r for r in m.get('check_runs',[]) if r.get('property_check')!=prop]
runs.append({"property_check":prop,"command":f"tools/evalmut.sh seeded/{os.path.basename(D)}/patch.diff {prop} {n}".strip(),"exit_code":int(rc.group(1)) if rc else None,"detected": bool(rc and rc.group(1)=='1'),"violation_groups":clauses})
m['check_runs']=runs
m['detected_by']=sorted({r['property_check'] for r in runs if r['detected']})
json.dump(m,open(mp,'w'),indent=1)
print(os.path.basename(D),prop,runs[-1]['exit_code'],clauses)
P
