module verif/tools

go 1.26
