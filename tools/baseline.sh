#!/bin/bash
# baseline.sh: murex's own pinned suite (command from /root/.vp/BASELINE.json) with the verif guard OFF (no instrumentation).
# prints FAIL lines; exit 0 iff the only failing tests are the two that always fail offline.
cd /repo
out=$(mktemp /var/tmp/baseline.XXXX)
go test -mod=mod -json -vet=off -count=1 -timeout 25m ./... > "$out" 2>/dev/null
python3 - "$out" <<'P'
import json,sys
fails=set(); passes=0
for l in open(sys.argv[1]):
    try: e=json.loads(l)
    except: continue
    if e.get('Test') and '/' not in e['Test']:
        if e.get('Action')=='fail': fails.add(e['Package']+'::'+e['Test'])
        elif e.get('Action')=='pass': passes+=1
allowed={'github.com/lmorg/murex/builtins/core/open::TestHttp','github.com/lmorg/murex/shell::TestAspellInstalled'}
print('passed',passes,'failed',sorted(fails))
sys.exit(0 if fails<=allowed else 1)
P
rc=$?
rm -f "$out"
exit $rc
