#!/bin/bash
# verify_seed.sh <patch.diff> <demo test file> <dir in tree for the demo> <-run regex> <pkg pattern> [extra test pkgs...]
# Confirms in a scratch worktree of /repo (never /repo itself): demo passes without the patch; with the patch the
# tree builds, the demo fails, and the touched packages' own tests still pass.
set -u
patch=$1; demo=$2; dest=$3; run=$4; pkg=$5; shift 5
W=/tmp/wt-verify
if [ ! -d $W ]; then git -C /repo worktree add -q --detach $W HEAD || exit 2; fi
cd $W && git checkout -q --detach "$(git -C /repo rev-parse HEAD)" && git checkout -q -- . && git clean -fdq
mkdir -p "$dest"; cp "$demo" "$dest/" || exit 2
echo "== without the change: demo"
go test -count=1 -vet=off ${VERIFY_FLAGS:-} -run "$run" "$pkg" 2>&1 | tail -3
git apply "$patch" || { echo "PATCH DOES NOT APPLY"; exit 2; }
echo "== with the change: build"
go build ./... 2>&1 | tail -3
echo "== with the change: demo (expected to FAIL)"
go test -count=1 -vet=off ${VERIFY_FLAGS:-} -run "$run" "$pkg" 2>&1 | tail -6
rm -f "$dest/$(basename "$demo")"; rmdir "$dest" 2>/dev/null
echo "== with the change: existing tests of touched packages"
if [ -d "$dest" ]; then go test -count=1 -vet=off "$pkg" "$@" 2>&1 | tail -8; else go test -count=1 -vet=off "$@" 2>&1 | tail -8; fi
git checkout -q -- . && git clean -fdq
