#!/usr/bin/env python3
"""Regenerates /verif/MANIFEST.json from plans/*.json (claimed checks) and the tables below."""
import json, os, glob

V = '/verif'
NA = {
 'C06': 'pure function of the expression text (parser + evaluator on one goroutine); no schedule, clock, I/O or fault can influence it',
 'C07': 'pure function of operand values (truthiness table); nothing for a scheduler, clock or fault to act on',
 'C08': 'pure string-in/argv-out behaviour of the statement parser; no interleaving or fault dimension',
 'C09': 'pure parsing function of the literal',
 'C10': 'pure escaping/parsing round trip; the only process involved (--execute) adds no nondeterminism the property depends on',
 'C12': 'aliasing and path precision of nested assignment are sequential data-structure semantics with no schedule/clock/I/O dependence (concurrent in-place alter vs readers is an unsynchronised access: C32)',
 'C13': 'pure numeric formatting/parsing',
 'C14': 'marshal/unmarshal on a fully buffered document: a pure function of the document',
 'C16': 'pure function of (document, index); its known panic needs no schedule and is reported under C19',
 'C17': 'pure slice arithmetic on a list',
 'C18': 'pure generator',
 'C20': 'single-goroutine pure function of the text: a fuzzing target, not a simulation target',
 'C22': 'deterministic table lookup on one goroutine; termination of alias expansion is a property of one code path, not of a schedule',
 'C23': 'pure function of (signature, arguments); the FID leak on a failed cast is reported under C28',
 'C24': 'pure function of (flag table, argv); the args crash-and-hang is reported under C19',
 'C31': 'pure function of (captured output, plan)',
 'C34': 'pure function of the line (two parsers compared)',
 'C35': 'pure codec',
 'C36': 'pure parser comparison',
 'C37': 'pure function of the line',
 'C38': 'pure list transformations; the streaming they sit on is C01/C15',
}
PLANNED = ['C01','C02','C03','C04','C05','C11','C15','C19','C21','C25','C26','C27','C28','C29','C30','C32','C33','C39']

TEXT = {
 'C01': ('seeded search over writer/reader workloads, buffer-limit knob, schedules and ForceClose/endpoint faults on the real streams.Stdin/Tee; oracle = exactly-once/in-order/contiguous-chunk history check, EOF-after-last-close, liveness budget, counter equalities', 'deterministic simulation (seeded scheduler over instrumented murex) + history oracle'),
 'C02': ('seeded schedules of Set/GetDataType, Open/Close, ForceClose actors; history checked for linearizability against the statement\'s model with porcupine plus direct clauses', 'deterministic simulation + porcupine linearizability check'),
 'C03': ('generated deterministic programs, each run under many seeded schedules and buffer-limit knobs; oracle = identical (stdout, stderr, exit) across schedules and termination (exact deadlock, calibrated step budget)', 'deterministic simulation: cross-schedule differential oracle'),
 'C04': ('generated &&/||/; chains run under seeded schedules; oracle = reference model of the statement', 'deterministic simulation + reference model'),
 'C05': ('generated chains inside try/trypipe/runmode functions under seeded schedules; oracle = reference model of the statement', 'deterministic simulation + reference model'),
 'C11': ('generated set/unset/read programs over nested calls, blocks and concurrent calls; oracle = scope-stack model, per-call isolation', 'deterministic simulation + reference model'),
 'C15': ('producer task writes arrays of every registered type through WriteArray while a consumer (ReadArray / foreach) runs concurrently under seeded schedules and buffer-limit knob; oracle = same list, in order, once', 'deterministic simulation + round-trip oracle'),
 'C19': ('adversarial program generator; simulator gives exact hang detection (deadlock verdict), attributes panics in any goroutine, and advances the fake clock past delayed crashes', 'deterministic simulation with delayed-crash clock advance'),
 'C21': ('complete enumeration of exit codes 0-255 and terminating signals of a real helper child in 4 contexts under the simulator', 'fault enumeration (child death) under deterministic simulation'),
 'C25': ('generated config set/get/default programs over call depths and concurrent calls; oracle = scope model of the statement', 'deterministic simulation + reference model'),
 'C26': ('seeded schedules and clock jumps over named-pipe registry operations; oracle = process survival, uniqueness, errors on missing pipes, gone after grace period', 'deterministic simulation with clock faults + model/linearizability'),
 'C27': ('seeded schedules over job add/terminate/GC/lookup; oracle = slice model of the statement', 'deterministic simulation + reference model'),
 'C28': ('several generated programs run concurrently in one bubble; oracle = FID binding stable and unique during the run, table empty at quiescence', 'deterministic simulation + invariant/quiescence oracle'),
 'C29': ('generated multi-session histories with the file cut at enumerated byte offsets of the record being appended (crash), then further sessions; oracle = model list, only the torn record may be missing', 'fault enumeration: crash points over the append path'),
 'C30': ('seeded histories of Write/Read/Trim/Clear with the fake clock wired into sqlite and clock jumps to TTL boundaries, look-alike keys, disk faults; oracle = model map with TTL', 'deterministic simulation with clock and disk faults + reference model'),
 'C32': ('-race build of the instrumented tree with the scheduler\'s happens-before edges hidden, so ThreadSanitizer judges murex\'s own synchronisation on every seeded schedule', 'deterministic simulation + race detector with hidden scheduler edges'),
 'C33': ('generated redirection programs with tagged payloads under seeded schedules and buffer-limit knob; oracle = routing model, byte conservation', 'deterministic simulation + reference model'),
 'C39': ('generated nested loop/function programs with break/continue/return under seeded schedules; oracle = reference interpreter of the statement', 'deterministic simulation + reference interpreter'),
}

def main():
    checks = []
    na = [{'property_id': k, 'reason': v} for k, v in sorted(NA.items())]
    for pid in PLANNED:
        pf = f'{V}/plans/{pid}.json'
        if not os.path.exists(pf):
            na.append({'property_id': pid, 'reason': 'claimed in DESIGN.md but its check is not built yet in this revision'})
            continue
        plan = json.load(open(pf))
        text, tech = TEXT[pid]
        checks.append({
            'property_id': pid,
            'quick_cmd': f'./check.sh {pid} quick',
            'thorough_cmd': f'./check.sh {pid} thorough',
            'evidence_file': f'/verif/evidence/{pid}.json',
            'replay_cmd_template': 'bin/mxsim replay {path}',
            'engine': 'mxsim',
            'level_claimed': {'category': plan['level'], 'text': text + '. Sampling, not enumeration: a clean batch is evidence, not proof.' if plan['level']=='exploration' else text, 'design_ref': f'DESIGN.md §4 {pid}'},
            'level_note': 'trusted: Go 1.26.8 + testing/synctest, the mxinstr rewrite (murex\'s suite passes on the instrumented copy), the harness oracle/model written from the property statement' + ('; ThreadSanitizer' if pid=='C32' else '') + ('; porcupine' if pid in ('C02','C26','C27','C30') else ''),
            'technique': tech,
        })
    na.sort(key=lambda x: x['property_id'])
    m = {
        'version': 1,
        'setup_cmd': './setup.sh',
        'hooks': {
            'guard': 'verif',
            'enable': 'no hook commits in /repo: every check copies /repo\'s working tree to a scratch directory, rewrites it with bin/mxinstr (go/ast rules R1-R8: go/Lock/loop/atomic/wake/time.Now) and builds the worker there with go1.26.8',
            'baseline_off_cmd': 'tools/baseline.sh',
            'source_commits': [],
            'add_only': True,
        },
        'engines': [{'name': 'mxsim', 'path': '/verif/bin/mxsim', 'serves_properties': [c['property_id'] for c in checks],
                     'kind_free_text': 'deterministic simulation with fault injection: seeded scheduler (simrt) over testing/synctest bubbles, AST-instrumented murex, per-property harness + oracle, shrink + replay'}],
        'checks': checks,
        'not_applicable': na,
        'notes': 'Exit 0 held / 1 VIOLATION line + replay file / 2 infrastructure. Known findings: known_findings.json. See DESIGN.md.',
    }
    json.dump(m, open(f'{V}/MANIFEST.json', 'w'), indent=1)
    print('checks', [c['property_id'] for c in checks], 'na', len(na))

main()
