#!/bin/bash
# runs the thorough tier of the given properties one after another against a frozen copy of the
# repository (development aid: evidence goes to $OUT/<id>/, never to /verif/evidence).
# usage: thorough_all.sh <repo> <harness-dir> <out> ID...
repo=$1; hdir=$2; out=$3; shift 3
mkdir -p "$out"
for spec in "$@"; do
	id=${spec%%=*}
	unset MXSIM_N
	case $spec in *=*) export MXSIM_N=${spec#*=} ;; esac # ID=N: N cases per seed value instead of the plan's size
	start=$(date +%s)
	MXSIM_REPO=$repo MXSIM_HARNESS=$hdir MXSIM_OUT=$out/$id timeout 100m /verif/bin/mxsim check "$id" --tier thorough >"$out/$id.log" 2>&1
	rc=$?
	echo "$id n=${MXSIM_N:-plan} rc=$rc $(( $(date +%s) - start ))s $(grep -E 'cases,' "$out/$id.log" | tail -1 | cut -c1-300)" >>"$out/summary.txt"
done
echo done >>"$out/summary.txt"
