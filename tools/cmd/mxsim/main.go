// mxsim: driver of the deterministic simulation checks for lmorg/murex.
//
//	mxsim check <ID> --tier quick|thorough     decide property <ID> on /repo's working tree
//	mxsim replay <file>                        re-run a replay file against /repo's working tree
//
// Exit codes: 0 property held on everything explored (KNOWN-FINDING lines
// allowed), 1 violation (a line "VIOLATION property=<id> replay=<path>" is
// printed), 2 infrastructure trouble (never reported as a violation).
package main

import (
	"bufio"
	"encoding/json"
	"fmt"
	"os"
	"os/exec"
	"path/filepath"
	"regexp"
	"sort"
	"strconv"
	"strings"
	"sync"
	"syscall"
	"time"
)

const verifDir = "/verif"

// outDir: where evidence/ and replays/ go. Development runs (MXSIM_REPO / MXSIM_HARNESS) must not
// overwrite the evidence of the registered checks.
func outDir() string {
	if v := os.Getenv("MXSIM_OUT"); v != "" {
		return v // evaluation of seeded changes: keep the registered evidence untouched
	}
	if os.Getenv("MXSIM_REPO") != "" || os.Getenv("MXSIM_HARNESS") != "" {
		return "/var/tmp/mxsim-dev-out"
	}
	return verifDir
}

// ---------------------------------------------------------------- protocol (mirrors harness/core_test.go)

type Sched struct {
	Seed      uint64  `json:"seed"`
	Strategy  string  `json:"strategy"`
	Decisions []int   `json:"decisions,omitempty"`
	JumpProb  float64 `json:"jump_prob,omitempty"`
	DelayProb float64 `json:"delay_prob,omitempty"`
	MaxSteps  int     `json:"max_steps,omitempty"`
	MaxSimSec int     `json:"max_sim_sec,omitempty"`
	EstLen    int     `json:"est_len,omitempty"`
}

type Case struct {
	H     string          `json:"h"`
	Class string          `json:"class"`
	W     json.RawMessage `json:"w"`
	Sched Sched           `json:"sched"`
}

type Job struct {
	Prop   string `json:"prop"`
	Mode   string `json:"mode"`
	Tier   string `json:"tier"`
	Seed0  uint64 `json:"seed0"`
	From   int    `json:"from"`
	Count  int    `json:"count"`
	Stride int    `json:"stride"`
	Out    string `json:"out"`
	Case   *Case  `json:"case,omitempty"`
	Full   bool   `json:"full"`
	Sample int    `json:"sample"`
	Tmp    string `json:"tmp"`
	Aux    string `json:"aux"`
}

type Record struct {
	I        int            `json:"i"`
	Seed     uint64         `json:"seed"`
	Verdict  string         `json:"verdict"`
	Clause   string         `json:"clause,omitempty"`
	Detail   string         `json:"detail,omitempty"`
	Class    string         `json:"class,omitempty"`
	Strategy string         `json:"strategy,omitempty"`
	Bubbles  int            `json:"bubbles"`
	Steps    int            `json:"steps"`
	Switches int            `json:"switches"`
	Advances int            `json:"advances"`
	Jumps    int            `json:"jumps"`
	SimNs    int64          `json:"sim_ns"`
	MaxTasks int            `json:"max_tasks"`
	Anon     int            `json:"anon"`
	Leaked   int            `json:"leaked"`
	Hash     string         `json:"hash"`
	Diverged bool           `json:"diverged,omitempty"`
	Faults   map[string]int `json:"faults,omitempty"`
	Probes   map[string]int `json:"probes,omitempty"`
	Case     *Case          `json:"case,omitempty"`
	Decided  []int          `json:"decided,omitempty"`
	Trace    []string       `json:"trace,omitempty"`
	Obs      string         `json:"obs,omitempty"`
	WallUs   int64          `json:"wall_us"`
}

type line struct {
	Start *int  `json:"start,omitempty"`
	Done  bool  `json:"done,omitempty"`
	Cand  *Case `json:"cand,omitempty"`
	Record
}

// ---------------------------------------------------------------- per-property plan

type plan struct {
	Quick          int      `json:"quick"`          // cases per VERIF_SEED value, quick tier
	Thorough       int      `json:"thorough"`       // cases per VERIF_SEED value, thorough tier
	ThoroughSeeds  int      `json:"thorough_seeds"` // how many seed values the thorough tier iterates
	Batch          int      `json:"batch"`          // cases per worker job
	Race           bool     `json:"race"`           // build with -race
	Level          string   `json:"level"`          // exploration | fault_enumeration
	Rule           string   `json:"rule"`
	Helper         bool     `json:"helper"` // build the C21 helper
	Real           []string `json:"real"`
	Stub           []string `json:"stub"`
	JobTimeoutSec  int      `json:"job_timeout_sec"`
	CaseStallSec   int      `json:"case_stall_sec"`   // per-case wall-clock watchdog (0: none)
	IgnoreLiveness bool     `json:"ignore_liveness"`  // hang/deadlock verdicts are not judged by this property
	DetVerdict     bool     `json:"det_verdict_only"` // a real peer process takes part: compare verdicts, not decision traces
	DetFresh       bool     `json:"det_fresh"`        // determinism self-test compares single-case fresh processes (stateful harness)
	StallIsHang    bool     `json:"stall_is_hang"`    // a reproducible stall is a hang of the program under test
	Exhaustive     bool     `json:"exhaustive"`       // the harness enumerates a finite space completely
}

var commonReal = []string{"all murex code on the simulated path (instrumented only by mxinstr rules R1-R6)", "Go runtime 1.26.8", "testing/synctest fake clock and quiescence"}
var commonStub = []string{"goroutine choice, clock and timers (simrt scheduler)", "terminal/readline (not started)", "external commands (not run)"}

// plans are read from /verif/plans/<ID>.json
func loadPlan(prop string) *plan {
	pdir := filepath.Join(verifDir, "plans")
	if v := os.Getenv("MXSIM_HARNESS"); v != "" {
		if _, err := os.Stat(filepath.Join(v, prop+".json")); err == nil {
			pdir = v // development only: plan next to the harness under development
		}
	}
	b, err := os.ReadFile(filepath.Join(pdir, prop+".json"))
	if err != nil {
		return nil
	}
	var p plan
	if err := json.Unmarshal(b, &p); err != nil {
		infra("plans/%s.json does not parse: %v", prop, err)
	}
	p.Rule = strings.ReplaceAll(p.Rule, "{tail}", ruleTail)
	return &p
}

const ruleTail = "non-trivial = the run had >=2 tasks and >=1 context switch; distinct = distinct decision-trace hash (task label, yield site, #candidates per decision)"

// ---------------------------------------------------------------- known findings

type finding struct {
	Property string `json:"property"`
	ID       string `json:"id"`
	Clause   string `json:"clause"`
	CaseRe   string `json:"case_re,omitempty"`
	DetailRe string `json:"detail_re,omitempty"`
	What     string `json:"what"`
}

type findingsFile struct {
	Findings []finding `json:"findings"`
	Fixed    []string  `json:"fixed"`
}

func loadFindings() findingsFile {
	var f findingsFile
	b, err := os.ReadFile(filepath.Join(verifDir, "known_findings.json"))
	if err == nil {
		if err := json.Unmarshal(b, &f); err != nil {
			infra("known_findings.json does not parse: %v", err)
		}
	}
	return f
}

func (f *finding) matches(prop string, r *Record) bool {
	if f.Property != prop || f.Clause != r.Verdict+"/"+r.Clause {
		return false
	}
	if f.CaseRe != "" {
		b, _ := json.Marshal(r.Case)
		if ok, _ := regexp.Match(f.CaseRe, b); !ok {
			return false
		}
	}
	if f.DetailRe != "" {
		if ok, _ := regexp.MatchString(f.DetailRe, r.Detail); !ok {
			return false
		}
	}
	return true
}

// ---------------------------------------------------------------- infra helpers

func infra(format string, a ...any) {
	fmt.Fprintf(os.Stderr, "mxsim: INFRA: "+format+"\n", a...)
	cleanup()
	os.Exit(2)
}

var scratch string

func cleanup() {
	if scratch != "" && os.Getenv("MXSIM_KEEP") == "" {
		os.RemoveAll(scratch)
	}
}

func goEnv() []string {
	env := os.Environ()
	env = append(env, "GOFLAGS=-mod=mod", "GOPROXY=off", "GOSUMDB=off", "GOTOOLCHAIN=local")
	return env
}

func run(dir string, env []string, name string, args ...string) (string, error) {
	cmd := exec.Command(name, args...)
	cmd.Dir = dir
	if env != nil {
		cmd.Env = env
	}
	b, err := cmd.CombinedOutput()
	return string(b), err
}

// prepare: copy /repo's working tree, instrument, build the worker
func prepare(race, helper bool) (worker string, instrStats string) {
	base := os.Getenv("VERIF_SCRATCH")
	if base == "" {
		base = "/var/tmp"
	}
	os.MkdirAll(base, 0755)
	var err error
	scratch, err = os.MkdirTemp(base, "mxsim.")
	if err != nil {
		infra("mktemp: %v", err)
	}
	tree := filepath.Join(scratch, "tree")
	src := "/repo"
	if v := os.Getenv("MXSIM_REPO"); v != "" {
		src = v // development only: registered checks always use /repo
	}
	if out, err := run("", nil, "rsync", "-a", "--exclude", ".git", "--exclude", "/images", src+"/", tree+"/"); err != nil {
		infra("rsync: %v\n%s", err, out)
	}
	os.MkdirAll(filepath.Join(tree, "utils/simrt"), 0755)
	if out, err := run("", nil, "sh", "-c", "cp "+verifDir+"/simrt/*.go "+tree+"/utils/simrt/"); err != nil {
		infra("copy simrt: %v\n%s", err, out)
	}
	out, err := run("", nil, filepath.Join(verifDir, "bin/mxinstr"), tree)
	if err != nil {
		infra("mxinstr: %v\n%s", err, out)
	}
	instrStats = strings.TrimSpace(out)
	h := filepath.Join(scratch, "h")
	os.MkdirAll(h, 0755)
	hsrc := verifDir + "/harness"
	if v := os.Getenv("MXSIM_HARNESS"); v != "" {
		hsrc = v // development only
	}
	if out, err := run("", nil, "sh", "-c", "cp "+hsrc+"/*.go "+h+"/ && cp "+tree+"/go.sum "+h+"/go.sum && cat "+verifDir+"/harness/go.sum.extra >> "+h+"/go.sum"); err != nil {
		infra("copy harness: %v\n%s", err, out)
	}
	gomod := "module verif/h\n\ngo 1.26\n\nrequire (\n\tgithub.com/anishathalye/porcupine v1.3.0\n\tgithub.com/lmorg/murex v0.0.0\n)\n\nreplace github.com/lmorg/murex => ../tree\n"
	os.WriteFile(filepath.Join(h, "go.mod"), []byte(gomod), 0644)
	run(h, goEnv(), "go1.26.8", "mod", "tidy")
	worker = filepath.Join(scratch, "worker.test")
	args := []string{"test", "-c", "-vet=off", "-trimpath"}
	if race {
		args = append(args, "-race")
	}
	args = append(args, "-o", worker, ".")
	if out, err := run(h, goEnv(), "go1.26.8", args...); err != nil {
		// a tree that does not compile is not a property verdict
		infra("building the worker against the instrumented copy of /repo failed: %v\n%s", err, out)
	}
	if helper {
		// the C21 peer process: a small C program, so that a signal really ends it with the default action
		src := filepath.Join(verifDir, "helper", "main.c")
		built := false
		for _, cc := range []string{"cc", "gcc", "clang"} {
			if _, err := exec.LookPath(cc); err != nil {
				continue
			}
			if out, err := run("", nil, cc, "-O1", "-o", filepath.Join(scratch, "mxhelper"), src); err == nil {
				built = true
				break
			} else {
				instrStats += " (" + cc + " failed: " + strings.TrimSpace(out) + ")"
			}
		}
		if !built {
			infra("building the C21 helper: no working C compiler (cc, gcc, clang)")
		}
	}
	return
}

var jobSeq int
var jobMu sync.Mutex

// runJob runs one worker process; returns the lines it produced, its stderr tail and whether it completed.
var caseStall time.Duration // per-case wall-clock watchdog (plan: case_stall_sec)
var stallIsHang bool        // plan: a case that stalls the worker twice is a hang of murex, not infrastructure

func runJob(worker string, j Job, gomaxprocs int, timeout time.Duration) (lines []line, stderrTail string, done bool, timedOut bool) {
	stalled := false
	defer func() {
		if stalled {
			stderrTail = "STALLED\n" + stderrTail
		}
	}()
	jobMu.Lock()
	jobSeq++
	n := jobSeq
	jobMu.Unlock()
	dir := filepath.Join(scratch, "jobs")
	os.MkdirAll(dir, 0755)
	jp := filepath.Join(dir, fmt.Sprintf("job%d.json", n))
	j.Out = filepath.Join(dir, fmt.Sprintf("out%d.jsonl", n))
	j.Tmp = filepath.Join(dir, fmt.Sprintf("tmp%d", n))
	os.MkdirAll(j.Tmp, 0755)
	defer os.RemoveAll(j.Tmp)
	if j.Aux == "" {
		j.Aux = filepath.Join(scratch, "mxhelper")
	}
	b, _ := json.Marshal(j)
	os.WriteFile(jp, b, 0644)
	cmd := exec.Command(worker, "-test.run", "^TestWorker$", "-test.timeout", "0")
	cmd.Dir = j.Tmp
	cmd.Env = append(os.Environ(), "MXSIM_JOB="+jp, "HOME="+j.Tmp, "GORACE=halt_on_error=1 exitcode=66 history_size=5",
		"MUREX_TEST_NO_EXEC_DEPS=1", "TMPDIR="+j.Tmp)
	if gomaxprocs > 0 {
		cmd.Env = append(cmd.Env, "GOMAXPROCS="+strconv.Itoa(gomaxprocs))
	}
	errPath := filepath.Join(dir, fmt.Sprintf("err%d.txt", n))
	ef, _ := os.Create(errPath)
	cmd.Stderr = ef
	cmd.Stdout = ef
	if err := cmd.Start(); err != nil {
		infra("cannot start worker: %v", err)
	}
	ch := make(chan error, 1)
	go func() { ch <- cmd.Wait() }()
	// wall-clock watchdogs: the whole job, and "no record for caseStall" (a case that spins in code
	// without yield points, or waits on something real, never comes back to the scheduler)
	deadline := time.After(timeout)
	tick := time.NewTicker(time.Second)
	var lastSize int64 = -1
	lastChange := time.Now()
wait:
	for {
		select {
		case <-ch:
			break wait
		case <-deadline:
			cmd.Process.Kill()
			<-ch
			timedOut = true
			break wait
		case <-tick.C:
			if st, err := os.Stat(j.Out); err == nil && st.Size() != lastSize {
				lastSize = st.Size()
				lastChange = time.Now()
			} else if caseStall > 0 && time.Since(lastChange) > caseStall {
				cmd.Process.Signal(syscall.SIGQUIT) // goroutine dump into the stderr file
				time.Sleep(500 * time.Millisecond)
				cmd.Process.Kill()
				<-ch
				timedOut = true
				stalled = true
				break wait
			}
		}
	}
	tick.Stop()
	ef.Close()
	f, err := os.Open(j.Out)
	if err == nil {
		sc := bufio.NewScanner(f)
		sc.Buffer(make([]byte, 1<<20), 1<<28)
		for sc.Scan() {
			var l line
			if json.Unmarshal(sc.Bytes(), &l) == nil {
				if l.Done {
					done = true
					continue
				}
				lines = append(lines, l)
			}
		}
		f.Close()
	}
	eb, _ := os.ReadFile(errPath)
	if stalled {
		if i := strings.Index(string(eb), "SIGQUIT"); i >= 0 {
			eb = eb[i:]
		}
		if len(eb) > 60000 {
			eb = eb[:60000]
		}
	} else if len(eb) > 6000 {
		eb = eb[len(eb)-6000:]
	}
	stderrTail = string(eb)
	os.Remove(j.Out)
	os.Remove(jp)
	os.Remove(errPath)
	return
}

var reFrame = regexp.MustCompile(`(?m)^(github\.com/lmorg/murex/[^\s(]+)`)

// crashSignature: a stable clause for a worker that died without reporting
// raceSignature: the unordered pair of innermost murex frames of a ThreadSanitizer report
func raceSignature(stderr string) string {
	i := strings.Index(stderr, "WARNING: DATA RACE")
	if i < 0 {
		return ""
	}
	rep := stderr[i:]
	if j := strings.Index(rep, "=================="); j > 0 {
		rep = rep[:j]
	}
	// the report has one stack per access: "<Write|Read> at ... by goroutine N:" / "Previous <write|read> at ... by goroutine M:"
	var frames []string
	for _, sec := range regexp.MustCompile(`(?m)^(?:Previous )?(?:[Ww]rite|[Rr]ead|[Aa]tomic [a-z]+) at `).Split(rep, -1)[1:] {
		if k := strings.Index(sec, "\n\n"); k > 0 {
			sec = sec[:k]
		}
		f := "?"
		for _, m := range regexp.MustCompile(`(?m)^  (\S+)\(\)\s*$`).FindAllStringSubmatch(sec, -1) {
			fn := m[1]
			if strings.Contains(fn, "/utils/simrt.") || strings.HasPrefix(fn, "runtime.") || strings.HasPrefix(fn, "sync.") || strings.HasPrefix(fn, "sync/atomic.") {
				continue
			}
			f = strings.TrimPrefix(fn, "github.com/lmorg/murex/")
			break
		}
		frames = append(frames, f)
		if len(frames) == 2 {
			break
		}
	}
	sort.Strings(frames)
	return "data-race[" + strings.Join(frames, " | ") + "]"
}

func crashSignature(stderr string) (clause string) {
	if r := raceSignature(stderr); r != "" {
		return r
	}
	kind := "crash"
	switch {
	case strings.Contains(stderr, "WARNING: DATA RACE"):
		kind = "data-race"
	case strings.Contains(stderr, "fatal error: concurrent map"):
		kind = "concurrent-map"
	case strings.Contains(stderr, "fatal error:"):
		kind = "fatal"
	case strings.Contains(stderr, "panic:"):
		kind = "panic"
	case strings.Contains(stderr, "SIGSEGV"):
		kind = "sigsegv"
	}
	idx := strings.Index(stderr, "panic:")
	if idx < 0 {
		idx = strings.Index(stderr, "fatal error:")
	}
	if idx < 0 {
		idx = strings.Index(stderr, "WARNING: DATA RACE")
	}
	frame := ""
	if idx >= 0 {
		for _, m := range reFrame.FindAllStringSubmatch(stderr[idx:], -1) {
			if strings.Contains(m[1], "/utils/simrt.") {
				continue
			}
			frame = strings.TrimPrefix(m[1], "github.com/lmorg/murex/")
			break
		}
	}
	return kind + "@" + frame
}

// runRange runs cases [from, from+count) of a search, restarting the worker after every non-ok case.
func runRange(worker string, base Job, from, count int, timeout time.Duration) (recs []Record, infraMsg string) {
	next := from
	end := from + count
	for next < end {
		j := base
		j.From, j.Count, j.Stride = next, end-next, 1
		lines, stderr, done, timedOut := runJob(worker, j, 0, timeout)
		inflight := -1
		var inflightCase *Case
		for _, l := range lines {
			if l.Start != nil {
				inflight = *l.Start
				inflightCase = l.Record.Case
				continue
			}
			if l.Cand != nil {
				continue
			}
			recs = append(recs, l.Record)
			if l.Record.I == inflight {
				inflight = -1
			}
			next = l.Record.I + 1
		}
		if done {
			return
		}
		if timedOut && stallIsHang && strings.HasPrefix(stderr, "STALLED") && inflight >= 0 {
			// no scheduling decision for caseStall of wall time: the case spins in code without yield
			// points (or waits on something real). Reported as a hang only after it stalls again alone.
			recs = append(recs, Record{I: inflight, Verdict: "hang", Clause: "wall-clock-stall", Detail: stallDetail(stderr), Case: inflightCase})
			next = inflight + 1
			continue
		}
		if timedOut {
			return recs, fmt.Sprintf("worker exceeded its wall-clock watchdog (%v) at case %d (a real stall, e.g. an uninstrumented wait); stderr tail:\n%s", timeout, inflight, tail(stderr, 1500))
		}
		if inflight >= 0 {
			// the worker died while this case was running: panic in some goroutine / runtime fatal error / race report
			recs = append(recs, Record{I: inflight, Verdict: "panic", Clause: crashSignature(stderr), Detail: tail(stderr, 3000), Case: inflightCase})
			next = inflight + 1
		} else if len(lines) == 0 {
			return recs, "worker produced no output; stderr tail:\n" + tail(stderr, 1500)
		}
	}
	return
}

// stallDetail: the murex frames of the goroutines that were running when the stalled worker was dumped
func stallDetail(stderr string) string {
	var out []string
	for _, blk := range strings.Split(stderr, "\n\n") {
		if strings.Contains(blk, "[running]") || strings.Contains(blk, "[runnable]") {
			n := 0
			for _, l := range strings.Split(blk, "\n") {
				if strings.HasPrefix(l, "github.com/lmorg/murex/") && !strings.Contains(l, "/utils/simrt.") {
					out = append(out, strings.SplitN(l, "(", 2)[0])
					n++
					if n >= 4 {
						break
					}
				}
			}
		}
	}
	if len(out) > 12 {
		out = out[:12]
	}
	return fmt.Sprintf("no scheduling decision for %v of wall time; running goroutines were in: %s", caseStall, strings.Join(out, " <- "))
}

func tail(s string, n int) string {
	if len(s) > n {
		return s[len(s)-n:]
	}
	return s
}

// runCase executes one explicit case in a fresh process.
func runCase(worker, prop string, c *Case, full bool, timeout time.Duration) (Record, bool) {
	j := Job{Prop: prop, Mode: "case", Case: c, Full: full}
	lines, stderr, _, timedOut := runJob(worker, j, 0, timeout)
	started := false
	for _, l := range lines {
		if l.Start != nil {
			started = true
			continue
		}
		if l.Cand == nil {
			return l.Record, true
		}
	}
	if timedOut && stallIsHang && strings.HasPrefix(stderr, "STALLED") {
		return Record{Verdict: "hang", Clause: "wall-clock-stall", Detail: stallDetail(stderr), Case: c}, true
	}
	if timedOut {
		return Record{Verdict: "infra", Clause: "watchdog", Detail: tail(stderr, 1500)}, false
	}
	if started {
		return Record{Verdict: "panic", Clause: crashSignature(stderr), Detail: tail(stderr, 3000), Case: c}, true
	}
	return Record{Verdict: "infra", Clause: "no-output", Detail: tail(stderr, 1500)}, false
}

func shrinkCands(worker, prop string, c *Case, timeout time.Duration) []Case {
	j := Job{Prop: prop, Mode: "shrink", Case: c}
	lines, _, _, _ := runJob(worker, j, 0, timeout)
	var out []Case
	for _, l := range lines {
		if l.Cand != nil {
			out = append(out, *l.Cand)
		}
	}
	return out
}

func sameFailure(a, b *Record) bool { return a.Verdict == b.Verdict && a.Clause == b.Clause }

// minimise: greedy descent over the harness's shrink candidates, each candidate in a fresh process
func minimise(worker, prop string, failing Record, timeout time.Duration, budget time.Duration) (Record, int) {
	cur := failing
	tried := 0
	deadline := time.Now().Add(budget)
	for round := 0; round < 200 && time.Now().Before(deadline); round++ {
		cands := shrinkCands(worker, prop, cur.Case, timeout)
		if len(cands) == 0 {
			break
		}
		improved := false
		for off := 0; off < len(cands) && !improved && time.Now().Before(deadline); off += 16 {
			hi := off + 16
			if hi > len(cands) {
				hi = len(cands)
			}
			res := make([]Record, hi-off)
			ok := make([]bool, hi-off)
			var wg sync.WaitGroup
			for k := off; k < hi; k++ {
				wg.Add(1)
				go func(k int) {
					defer wg.Done()
					c := cands[k]
					res[k-off], ok[k-off] = runCase(worker, prop, &c, false, timeout)
				}(k)
			}
			wg.Wait()
			tried += hi - off
			for k := range res {
				if ok[k] && sameFailure(&res[k], &failing) {
					c := cands[off+k]
					res[k].Case = &c
					cur = res[k]
					improved = true
					break
				}
			}
		}
		if !improved {
			break
		}
	}
	return cur, tried
}

// ---------------------------------------------------------------- evidence

type evidence struct {
	PropertyID  string         `json:"property_id"`
	Tier        string         `json:"tier"`
	Seed        int64          `json:"seed"`
	Level       string         `json:"level"`
	Coverage    map[string]any `json:"coverage"`
	Assumptions []string       `json:"assumptions"`
	WallS       float64        `json:"wall_s"`
	Violations  int            `json:"violations"`
}

func writeEvidence(ev *evidence) {
	os.MkdirAll(filepath.Join(outDir(), "evidence"), 0755)
	b, _ := json.MarshalIndent(ev, "", " ")
	if err := os.WriteFile(filepath.Join(outDir(), "evidence", ev.PropertyID+".json"), append(b, '\n'), 0644); err != nil {
		infra("cannot write evidence: %v", err)
	}
}

// ---------------------------------------------------------------- check

func check(prop, tier string) int {
	t0 := time.Now()
	pl := loadPlan(prop)
	if pl == nil {
		infra("no plan for property %s", prop)
	}
	seed := uint64(20260921)
	if s := os.Getenv("VERIF_SEED"); s != "" {
		v, err := strconv.ParseInt(s, 10, 64)
		if err != nil {
			infra("VERIF_SEED is not an integer: %q", s)
		}
		seed = uint64(v)
	}
	fmt.Printf("mxsim: property=%s tier=%s VERIF_SEED=%d\n", prop, tier, int64(seed))
	worker, instr := prepare(pl.Race, pl.Helper)
	defer cleanup()
	fmt.Printf("mxsim: instrumented copy of /repo built in %.1fs (%s)\n", time.Since(t0).Seconds(), instr)
	caseStall = time.Duration(pl.CaseStallSec) * time.Second
	stallIsHang = pl.StallIsHang
	timeout := time.Duration(pl.JobTimeoutSec) * time.Second
	if timeout == 0 {
		timeout = 30 * time.Minute
	}
	nPer := pl.Quick
	seeds := []uint64{seed}
	if tier == "thorough" {
		nPer = pl.Thorough
		ns := pl.ThoroughSeeds
		if ns == 0 {
			ns = 2
		}
		for k := 1; k < ns; k++ {
			seeds = append(seeds, seed+uint64(k))
		}
	}
	if s := os.Getenv("MXSIM_N"); s != "" {
		nPer, _ = strconv.Atoi(s)
	}
	batch := pl.Batch
	if batch == 0 {
		batch = 100
	}
	sampleEvery := batch / 2
	if sampleEvery == 0 {
		sampleEvery = 1
	}

	// ---- search
	type chunk struct {
		seed        uint64
		from, count int
	}
	var chunks []chunk
	for _, s := range seeds {
		for f := 0; f < nPer; f += batch {
			c := batch
			if f+c > nPer {
				c = nPer - f
			}
			chunks = append(chunks, chunk{s, f, c})
		}
	}
	var mu sync.Mutex
	var all []Record
	recSeed := map[*Record]uint64{}
	var infraMsgs []string
	sem := make(chan struct{}, 16)
	var wg sync.WaitGroup
	type seeded struct {
		Record
		seed0 uint64
	}
	var allS []seeded
	for _, ck := range chunks {
		wg.Add(1)
		sem <- struct{}{}
		go func(ck chunk) {
			defer wg.Done()
			defer func() { <-sem }()
			base := Job{Prop: prop, Mode: "search", Tier: tier, Seed0: ck.seed, Sample: sampleEvery}
			recs, im := runRange(worker, base, ck.from, ck.count, timeout)
			mu.Lock()
			for _, r := range recs {
				allS = append(allS, seeded{r, ck.seed})
			}
			if im != "" {
				infraMsgs = append(infraMsgs, im)
			}
			mu.Unlock()
		}(ck)
	}
	wg.Wait()
	_ = all
	_ = recSeed
	if len(infraMsgs) > 0 {
		infra("%s", strings.Join(infraMsgs, "\n---\n"))
	}
	sort.Slice(allS, func(i, j int) bool {
		if allS[i].seed0 != allS[j].seed0 {
			return allS[i].seed0 < allS[j].seed0
		}
		return allS[i].I < allS[j].I
	})
	searchWall := time.Since(t0).Seconds()

	// ---- aggregate
	cov := map[string]any{}
	verdicts := map[string]int{}
	classes := map[string]int{}
	strat := map[string]int{}
	faults := map[string]int{}
	probes := map[string]int{}
	hashes := map[string]struct{}{}
	var steps, switches, advances, jumps, bubbles, anon, leaked int64
	var simNs int64
	maxSteps := 0
	var samples []any
	var failing []seeded
	inconclusive := 0
	standstill := 0
	for _, r := range allS {
		verdicts[r.Verdict]++
		classes[r.Class]++
		strat[r.Strategy]++
		for k, v := range r.Faults {
			faults[k] += v
		}
		for k, v := range r.Probes {
			probes[k] += v
		}
		steps += int64(r.Steps)
		switches += int64(r.Switches)
		advances += int64(r.Advances)
		jumps += int64(r.Jumps)
		bubbles += int64(r.Bubbles)
		anon += int64(r.Anon)
		leaked += int64(r.Leaked)
		simNs += r.SimNs
		if r.Steps > maxSteps && r.Verdict == "ok" {
			maxSteps = r.Steps
		}
		if r.MaxTasks >= 2 && r.Switches >= 1 {
			hashes[r.Hash] = struct{}{}
		}
		switch r.Verdict {
		case "ok":
			if r.Case != nil && len(samples) < 4 {
				samples = append(samples, map[string]any{"case": r.Case, "steps": r.Steps, "context_switches": r.Switches, "trace_hash": r.Hash})
			}
		case "inconclusive":
			inconclusive++
		default:
			if pl.IgnoreLiveness && (r.Verdict == "hang" || r.Verdict == "deadlock") {
				// this property says nothing about termination (C32: races only); its workloads may
				// legitimately stand still (a background job writing to a pipe nobody drains)
				inconclusive++
				standstill++
				continue
			}
			failing = append(failing, r)
		}
	}
	evals := len(allS)

	// ---- determinism self-test: re-run a sample in other processes at GOMAXPROCS 1/4/16
	detChecked, detMismatch := 0, 0
	var detMsg string
	if evals > 0 {
		want := map[int]seeded{}
		stride := nPer / 40
		if stride == 0 {
			stride = 1
		}
		cnt := nPer / stride
		if cnt > 40 {
			cnt = 40
		}
		for _, r := range allS {
			if r.seed0 == seeds[0] && r.I%stride == 0 && r.I/stride < cnt {
				want[r.I] = r
			}
		}
		var dmu sync.Mutex
		var dwg sync.WaitGroup
		gmps := []int{1, 4, 16}
		if pl.DetFresh {
			// the harness's programs change process-global murex state, so a case is only a function of
			// (case, code) when it runs alone: compare two fresh single-case processes with each other
			gmps = nil
			var idx []int
			for i := range want {
				idx = append(idx, i)
			}
			sort.Ints(idx)
			dsem := make(chan struct{}, 16)
			for _, i := range idx {
				dwg.Add(1)
				dsem <- struct{}{}
				go func(i int) {
					defer dwg.Done()
					defer func() { <-dsem }()
					var got [2]*Record
					for k, gmp := range []int{1, 16} {
						j := Job{Prop: prop, Mode: "search", Tier: tier, Seed0: seeds[0], From: i, Count: 1, Stride: 1}
						lines, _, _, _ := runJob(worker, j, gmp, timeout)
						for n := range lines {
							if lines[n].Start == nil && lines[n].Cand == nil {
								got[k] = &lines[n].Record
							}
						}
					}
					dmu.Lock()
					defer dmu.Unlock()
					if got[0] == nil || got[1] == nil {
						return // the case kills its worker: nothing to compare (it is reported through the crash path)
					}
					detChecked += 2
					if got[0].Clause == "wall-clock-stall" || got[1].Clause == "wall-clock-stall" {
						return // decided by the wall clock, not by the seed
					}
					if got[0].Hash != got[1].Hash || got[0].Verdict != got[1].Verdict || got[0].Steps != got[1].Steps {
						detMismatch++
						detMsg = fmt.Sprintf("case %d alone: GOMAXPROCS=1 hash=%s steps=%d verdict=%s; GOMAXPROCS=16 hash=%s steps=%d verdict=%s", i, got[0].Hash, got[0].Steps, got[0].Verdict, got[1].Hash, got[1].Steps, got[1].Verdict)
					}
				}(i)
			}
		}
		for _, gmp := range gmps {
			dwg.Add(1)
			go func(gmp int) {
				defer dwg.Done()
				j := Job{Prop: prop, Mode: "search", Tier: tier, Seed0: seeds[0], From: 0, Count: cnt, Stride: stride}
				from := 0
				for from < cnt {
					j.From, j.Count = from*stride, cnt-from
					lines, _, done, _ := runJob(worker, j, gmp, timeout)
					last := -1
					for _, l := range lines {
						if l.Start != nil {
							last = *l.Start
							continue
						}
						if l.Cand != nil {
							continue
						}
						w, ok := want[l.Record.I]
						dmu.Lock()
						if ok {
							detChecked++
							// a wall-clock stall is decided by the wall clock (machine load), not by the seed: nothing to compare
							stalled := w.Clause == "wall-clock-stall" || l.Record.Clause == "wall-clock-stall"
							if !stalled && (w.Verdict != l.Record.Verdict || w.Clause != l.Record.Clause || (!pl.DetVerdict && (w.Hash != l.Record.Hash || w.Steps != l.Record.Steps))) {
								detMismatch++
								detMsg = fmt.Sprintf("case %d: batch run hash=%s steps=%d verdict=%s; re-run (GOMAXPROCS=%d) hash=%s steps=%d verdict=%s", l.Record.I, w.Hash, w.Steps, w.Verdict, gmp, l.Record.Hash, l.Record.Steps, l.Record.Verdict)
							}
						}
						dmu.Unlock()
					}
					if done || last < 0 {
						break
					}
					from = last/stride + 1 // the worker left after a non-ok case: carry on behind it
				}
			}(gmp)
		}
		dwg.Wait()
	}

	// ---- confirm, minimise, classify
	kf := loadFindings()
	type group struct {
		key     string
		members []seeded
	}
	groups := map[string]*group{}
	var gkeys []string
	for _, r := range failing {
		k := r.Verdict + "/" + r.Clause
		if groups[k] == nil {
			groups[k] = &group{key: k}
			gkeys = append(gkeys, k)
		}
		groups[k].members = append(groups[k].members, r)
	}
	sort.Strings(gkeys)
	violations := 0
	knownHit := map[string]int{}
	unconfirmed := 0
	shrinkTried := 0
	var shrinkSpent time.Duration
	var violLines []string
	var findingsOut []any
	os.MkdirAll(filepath.Join(outDir(), "replays"), 0755)
	for _, k := range gkeys {
		g := groups[k]
		sort.SliceStable(g.members, func(i, j int) bool { return g.members[i].Steps < g.members[j].Steps })
		// split members into those covered by a known finding (on their own, unminimised case) and the rest
		var rest []seeded
		for _, m := range g.members {
			hit := false
			for i := range kf.Findings {
				if m.Case != nil && kf.Findings[i].matches(prop, &m.Record) {
					knownHit[kf.Findings[i].ID]++
					hit = true
					break
				}
			}
			if !hit {
				rest = append(rest, m)
			}
		}
		if len(rest) == 0 {
			continue
		}
		// confirm the smallest few in a fresh process, alone
		var confirmed *Record
		for i := 0; i < len(rest) && i < 3 && confirmed == nil; i++ {
			m := rest[i]
			if m.Case == nil {
				// died without a record: regenerate the case by re-running that index alone
				recs, _ := runRange(worker, Job{Prop: prop, Mode: "search", Tier: tier, Seed0: m.seed0, Sample: 1}, m.I, 1, timeout)
				if len(recs) == 1 && recs[0].Verdict == m.Verdict && recs[0].Clause == m.Clause {
					r := recs[0]
					r.Detail = m.Detail
					if r.Case == nil {
						// crash again, still no case: report with the seed as the replay handle
						r.Case = &Case{H: "search-index", Class: fmt.Sprintf("seed0=%d index=%d tier=%s", m.seed0, m.I, tier)}
					}
					confirmed = &r
				}
				continue
			}
			r, ok := runCase(worker, prop, m.Case, false, timeout)
			if ok && sameFailure(&r, &m.Record) {
				r.Case = m.Case
				confirmed = &r
			}
		}
		if confirmed == nil {
			unconfirmed += len(rest)
			fmt.Printf("mxsim: %d case(s) with %s did not reproduce alone in a fresh process; counted as unconfirmed, not reported\n", len(rest), k)
			continue
		}
		min := *confirmed
		if confirmed.Case.H != "search-index" {
			var tried int
			// minimisation budget: 90 s per violation group, 6 minutes for the whole check; groups beyond
			// that are reported with their confirmed, unminimised witness
			budget := 90 * time.Second
			if left := 6*time.Minute - shrinkSpent; left < budget {
				budget = left
			}
			ts := time.Now()
			if budget > 5*time.Second {
				min, tried = minimise(worker, prop, *confirmed, timeout, budget)
			}
			shrinkSpent += time.Since(ts)
			shrinkTried += tried
			// final run with full recording; replay by explicit decisions when the case is a single bubble
			full, ok := runCase(worker, prop, min.Case, true, timeout)
			if ok && sameFailure(&full, confirmed) {
				full.Case = min.Case
				min = full
			}
		}
		// known finding on the minimised witness?
		matched := false
		for i := range kf.Findings {
			if kf.Findings[i].matches(prop, &min) {
				knownHit[kf.Findings[i].ID] += len(rest)
				matched = true
				break
			}
		}
		if matched {
			continue
		}
		violations++
		rp := filepath.Join(outDir(), "replays", fmt.Sprintf("%s-%s-%d.json", prop, sanitize(k), int64(seed)))
		if len(min.Trace) > 1200 {
			min.Trace = append(append(append([]string{}, min.Trace[:200]...), fmt.Sprintf("… %d decisions omitted …", len(min.Trace)-1000)), min.Trace[len(min.Trace)-800:]...)
		}
		if len(min.Decided) > 20000 {
			min.Decided = min.Decided[:20000]
		}
		rep := map[string]any{"property": prop, "verdict": min.Verdict, "clause": min.Clause, "detail": min.Detail, "case": min.Case,
			"trace_hash": min.Hash, "steps": min.Steps, "decisions": min.Decided, "trace": min.Trace, "faults": min.Faults,
			"verif_seed": int64(seed), "tier": tier, "occurrences_in_search": len(rest), "shrink_candidates_tried": shrinkTried}
		b, _ := json.MarshalIndent(rep, "", " ")
		os.WriteFile(rp, append(b, '\n'), 0644)
		violLines = append(violLines, fmt.Sprintf("VIOLATION property=%s replay=%s", prop, rp))
		findingsOut = append(findingsOut, map[string]any{"clause": k, "detail": min.Detail, "replay": rp, "occurrences": len(rest)})
		fmt.Printf("mxsim: %s: %s\n", k, firstLine(min.Detail))
	}
	for _, f := range kf.Findings {
		if f.Property == prop && knownHit[f.ID] > 0 {
			fmt.Printf("KNOWN-FINDING: property=%s %s (%s; %d occurrence(s) in this run)\n", prop, f.ID, f.What, knownHit[f.ID])
		}
	}

	// ---- evidence
	wall := time.Since(t0).Seconds()
	cov["evaluations"] = evals
	cov["distinct_nontrivial"] = len(hashes)
	cov["rule"] = pl.Rule
	if len(samples) == 0 {
		samples = append(samples, "no ok case carried a sample")
	}
	cov["samples"] = samples
	cov["verdicts"] = verdicts
	cov["classes"] = classes
	cov["strategies"] = strat
	cov["faults_fired"] = faults
	cov["probes"] = probes
	cov["decisions_total"] = steps
	cov["context_switches_total"] = switches
	cov["bubbles"] = bubbles
	cov["spin_time_advances"] = advances
	cov["clock_jumps_injected"] = jumps
	cov["simulated_seconds"] = float64(simNs) / 1e9
	cov["max_decisions_in_an_ok_run"] = maxSteps
	cov["runs_per_hour"] = int(float64(evals) / searchWall * 3600)
	cov["seeds"] = seeds
	cov["anon_goroutine_hazards"] = anon
	cov["leaked_goroutines"] = leaked
	cov["inconclusive"] = inconclusive
	cov["standstill_not_judged"] = standstill
	cov["unconfirmed_not_reported"] = unconfirmed
	cov["determinism_reruns"] = detChecked
	cov["determinism_mismatches"] = detMismatch
	cov["known_findings_hit"] = knownHit
	cov["new_violations"] = findingsOut
	cov["real_code"] = append(append([]string{}, commonReal...), pl.Real...)
	cov["stubbed"] = append(append([]string{}, commonStub...), pl.Stub...)
	cov["instrumentation"] = instr
	cov["exhaustive"] = pl.Exhaustive
	ev := &evidence{PropertyID: prop, Tier: tier, Seed: int64(seed), Level: pl.Level, Coverage: cov, WallS: wall, Violations: violations,
		Assumptions: []string{"Go 1.26.8 toolchain and testing/synctest semantics (durable blocking, fake clock)",
			"mxinstr preserves behaviour (murex's own suite passes on the instrumented copy with the simulator inactive)",
			"interleavings are explored at synchronisation operations; behaviours that need a data race are the business of C32",
			"a clean batch is evidence, not proof: seeded sampling of schedules and faults"}}
	writeEvidence(ev)
	fmt.Printf("mxsim: %d cases, %d distinct non-trivial traces, verdicts %v, faults fired %v, determinism re-runs %d (mismatches %d), %.1fs\n",
		evals, len(hashes), verdicts, faults, detChecked, detMismatch, wall)
	for _, l := range violLines {
		fmt.Println(l)
	}
	if violations > 0 {
		// every reported violation was confirmed alone in a fresh process and replays from its file; a
		// determinism mismatch next to it usually means the change under test made cases depend on each
		// other through process-global state
		if detMismatch > 0 {
			fmt.Printf("mxsim: note: the determinism self-test also failed (%s)\n", detMsg)
		}
		return 1
	}
	if detMismatch > 0 {
		infra("determinism self-test failed: %s", detMsg)
	}
	return 0
}

func firstLine(s string) string {
	if i := strings.IndexByte(s, '\n'); i >= 0 {
		return s[:i]
	}
	return s
}

func sanitize(s string) string {
	var b strings.Builder
	for _, r := range s {
		if (r >= 'a' && r <= 'z') || (r >= 'A' && r <= 'Z') || (r >= '0' && r <= '9') || r == '-' {
			b.WriteRune(r)
		} else {
			b.WriteByte('_')
		}
	}
	if b.Len() > 60 {
		return b.String()[:60]
	}
	return b.String()
}

// ---------------------------------------------------------------- replay

func replay(path string) int {
	b, err := os.ReadFile(path)
	if err != nil {
		infra("cannot read %s: %v", path, err)
	}
	var rep struct {
		Property  string `json:"property"`
		Verdict   string `json:"verdict"`
		Clause    string `json:"clause"`
		Case      *Case  `json:"case"`
		TraceHash string `json:"trace_hash"`
		Decisions []int  `json:"decisions"`
	}
	if err := json.Unmarshal(b, &rep); err != nil || rep.Case == nil {
		infra("%s is not a replay file: %v", path, err)
	}
	pl := loadPlan(rep.Property)
	if pl == nil {
		infra("no plan for property %s", rep.Property)
	}
	worker, _ := prepare(pl.Race, pl.Helper)
	defer cleanup()
	r, ok := runCase(worker, rep.Property, rep.Case, true, 10*time.Minute)
	if !ok {
		infra("replay did not run: %s", r.Detail)
	}
	fmt.Printf("mxsim replay: verdict=%s clause=%s trace_hash=%s (recorded: %s %s %s)\n%s\n", r.Verdict, r.Clause, r.Hash, rep.Verdict, rep.Clause, rep.TraceHash, r.Detail)
	if r.Verdict == rep.Verdict && r.Clause == rep.Clause {
		if rep.TraceHash != "" && r.Hash != rep.TraceHash {
			fmt.Println("mxsim replay: same violation, but the decision trace differs from the recording (the tree changed since it was recorded)")
		} else {
			fmt.Println("mxsim replay: reproduced exactly")
		}
		fmt.Printf("VIOLATION property=%s replay=%s\n", rep.Property, path)
		return 1
	}
	fmt.Println("mxsim replay: the recorded violation does not occur on this tree")
	return 0
}

func main() {
	if len(os.Args) >= 2 && os.Args[1] == "warm" {
		prepare(false, true)
		cleanup()
		prepare(true, false)
		cleanup()
		os.Exit(0)
	}
	if len(os.Args) < 3 {
		fmt.Fprintln(os.Stderr, "usage: mxsim check <ID> [--tier quick|thorough] | mxsim replay <file>")
		os.Exit(2)
	}
	switch os.Args[1] {
	case "check":
		tier := os.Getenv("VERIF_TIER")
		for i := 3; i < len(os.Args); i++ {
			if os.Args[i] == "--tier" && i+1 < len(os.Args) {
				tier = os.Args[i+1]
			}
		}
		if tier == "" {
			tier = "quick"
		}
		code := check(os.Args[2], tier)
		cleanup()
		os.Exit(code)
	case "replay":
		code := replay(os.Args[2])
		cleanup()
		os.Exit(code)
	}
	os.Exit(2)
}
