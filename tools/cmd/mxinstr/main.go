// mxinstr: source-to-source instrumentation of a scratch copy of lmorg/murex
// for the mxsim deterministic simulator. See DESIGN.md §2.2 (rules R1–R6).
//
//	mxinstr <root of scratch copy>
//
// Never run on /repo itself.
package main

import (
	"bytes"
	"encoding/json"
	"fmt"
	"go/ast"
	"go/format"
	"go/parser"
	"go/token"
	"os"
	"path/filepath"
	"sort"
	"strings"
)

const simPath = "github.com/lmorg/murex/utils/simrt"

var stats = map[string]int{}

// files whose lock receivers have no TryLock (debug.BadMutex) or that must stay untouched
var skipFiles = []string{
	"utils/virtualterm/",
	"utils/simrt/",
}

func main() {
	if len(os.Args) < 2 {
		fmt.Fprintln(os.Stderr, "usage: mxinstr <root>")
		os.Exit(2)
	}
	root, _ := filepath.Abs(os.Args[1])
	if root == "/repo" || strings.HasPrefix(root, "/repo/") {
		fmt.Fprintln(os.Stderr, "mxinstr: refusing to instrument /repo")
		os.Exit(2)
	}
	var files []string
	filepath.Walk(root, func(path string, info os.FileInfo, err error) error {
		if err != nil {
			return err
		}
		if info.IsDir() {
			b := filepath.Base(path)
			if b == "testdata" || b == ".git" || b == "node_modules" {
				return filepath.SkipDir
			}
			return nil
		}
		if !strings.HasSuffix(path, ".go") || strings.HasSuffix(path, "_test.go") {
			return nil
		}
		rel, _ := filepath.Rel(root, path)
		for _, s := range skipFiles {
			if strings.HasPrefix(rel, s) {
				return nil
			}
		}
		files = append(files, path)
		return nil
	})
	sort.Strings(files)
	for _, f := range files {
		instrument(root, f)
	}
	sqliteSeam(root)
	b, _ := json.Marshal(stats)
	fmt.Println(string(b))
}

// R7: the name of the database/sql driver murex opens its cache database with becomes a variable, so that a
// harness can register a wrapper around the same driver (statement-level scheduling points, see the C30
// harness) and have murex's own dbConnect use it. Default unchanged.
func sqliteSeam(root string) {
	p := filepath.Join(root, "utils/sqlite3/lib_go.go")
	b, err := os.ReadFile(p)
	if err != nil {
		return
	}
	s := string(b)
	if !strings.Contains(s, "const driverName = \"sqlite\"") {
		return
	}
	s = strings.Replace(s, "const driverName = \"sqlite\"", "var driverName = \"sqlite\"\n\n// SimSetDriverName is added by mxinstr (R7)\nfunc SimSetDriverName(s string) { driverName = s }", 1)
	os.WriteFile(p, []byte(s), 0644)
	stats["sqlite-driver-seam"]++
}

func site(fset *token.FileSet, root string, pos token.Pos) *ast.BasicLit {
	p := fset.Position(pos)
	rel, _ := filepath.Rel(root, p.Filename)
	return &ast.BasicLit{Kind: token.STRING, Value: fmt.Sprintf("%q", fmt.Sprintf("%s:%d", rel, p.Line))}
}

func sel(x, name string) ast.Expr {
	return &ast.SelectorExpr{X: ast.NewIdent(x), Sel: ast.NewIdent(name)}
}

func yieldStmt(fset *token.FileSet, root string, pos token.Pos) ast.Stmt {
	return &ast.ExprStmt{X: &ast.CallExpr{Fun: sel("simrt", "Yield"), Args: []ast.Expr{site(fset, root, pos)}}}
}

// containsAtomicCall: statement performs a sync/atomic package call (R6)
func containsAtomicCall(n ast.Node) bool {
	found := false
	ast.Inspect(n, func(m ast.Node) bool {
		if found {
			return false
		}
		switch v := m.(type) {
		case *ast.FuncLit, *ast.BlockStmt:
			_ = v
			return false // do not look into nested bodies
		case *ast.CallExpr:
			if se, ok := v.Fun.(*ast.SelectorExpr); ok {
				if id, ok := se.X.(*ast.Ident); ok && id.Name == "atomic" && id.Obj == nil {
					found = true
					return false
				}
			}
		}
		return true
	})
	return found
}

// R8 applies under these directories
var fileSeamDirs = []string{"shell/history/"}

var fileOps = map[string]bool{"Write": true, "WriteString": true, "WriteByte": true, "Flush": true, "Read": true, "ReadAt": true,
	"Seek": true, "Stat": true, "Truncate": true, "Sync": true, "OpenFile": true, "Open": true, "Create": true}

// containsFileCall: the statement (not its nested blocks) calls a method or function with the name of a file operation
func containsFileCall(n ast.Node) bool {
	found := false
	top := true
	ast.Inspect(n, func(m ast.Node) bool {
		if found {
			return false
		}
		switch v := m.(type) {
		case *ast.FuncLit:
			return false
		case *ast.BlockStmt:
			_ = v
			if top {
				return false
			}
		case *ast.CallExpr:
			if se, ok := v.Fun.(*ast.SelectorExpr); ok && fileOps[se.Sel.Name] {
				found = true
				return false
			}
		}
		return true
	})
	return found
}

// isBlockingWake: a simple statement after which the goroutine may have been
// woken by somebody else (R4): channel receive, WaitGroup/Cond Wait, time.Sleep
func isBlockingWake(s ast.Stmt) bool {
	recv := func(e ast.Expr) bool {
		u, ok := e.(*ast.UnaryExpr)
		return ok && u.Op == token.ARROW
	}
	switch st := s.(type) {
	case *ast.ExprStmt:
		if recv(st.X) {
			return true
		}
		if call, ok := st.X.(*ast.CallExpr); ok {
			if se, ok := call.Fun.(*ast.SelectorExpr); ok {
				if se.Sel.Name == "Wait" && len(call.Args) == 0 {
					return true
				}
				if id, ok := se.X.(*ast.Ident); ok && id.Name == "time" && se.Sel.Name == "Sleep" {
					return true
				}
			}
		}
	case *ast.AssignStmt:
		for _, r := range st.Rhs {
			if recv(r) {
				return true
			}
		}
	case *ast.SendStmt:
		return true
	}
	return false
}

func blockingSelect(st *ast.SelectStmt) bool {
	for _, c := range st.Body.List {
		if cc, ok := c.(*ast.CommClause); ok && cc.Comm == nil {
			return false // has default: non-blocking
		}
	}
	return true
}

func instrument(root, path string) {
	fset := token.NewFileSet()
	f, err := parser.ParseFile(fset, path, nil, parser.ParseComments)
	if err != nil {
		fmt.Fprintln(os.Stderr, "mxinstr: parse error", path, err)
		os.Exit(2)
	}
	for _, imp := range f.Imports {
		if imp.Path.Value == `"C"` {
			return // cgo files are left alone
		}
	}
	changed := false
	usesTimeNow := false
	rel, _ := filepath.Rel(root, path)
	fileSeam := false
	for _, d := range fileSeamDirs {
		if strings.HasPrefix(rel, d) {
			fileSeam = true
		}
	}
	ast.Inspect(f, func(n ast.Node) bool {
		if call, ok := n.(*ast.CallExpr); ok && len(call.Args) == 0 {
			if se, ok := call.Fun.(*ast.SelectorExpr); ok && se.Sel.Name == "Now" {
				if id, ok := se.X.(*ast.Ident); ok && id.Name == "time" && id.Obj == nil {
					id.Name = "simrt"
					usesTimeNow = true
					changed = true
					stats["now"]++
				}
			}
		}
		return true
	})
	gotoTargets := map[string]bool{}
	ast.Inspect(f, func(n ast.Node) bool {
		if b, ok := n.(*ast.BranchStmt); ok && b.Tok == token.GOTO && b.Label != nil {
			gotoTargets[b.Label.Name] = true
		}
		return true
	})

	var rewriteStmt func(s ast.Stmt) []ast.Stmt
	rewriteStmt = func(s ast.Stmt) []ast.Stmt {
		switch st := s.(type) {
		case *ast.ExprStmt:
			if call, ok := st.X.(*ast.CallExpr); ok && len(call.Args) == 0 {
				if se, ok := call.Fun.(*ast.SelectorExpr); ok {
					var try string
					switch se.Sel.Name {
					case "Lock":
						try = "TryLock"
					case "RLock":
						try = "TryRLock"
					}
					if try != "" {
						changed = true
						stats["lock"]++
						nc := &ast.CallExpr{Fun: sel("simrt", "LockFn"), Args: []ast.Expr{
							&ast.SelectorExpr{X: se.X, Sel: ast.NewIdent(se.Sel.Name)},
							&ast.SelectorExpr{X: se.X, Sel: ast.NewIdent(try)},
							site(fset, root, st.Pos()),
						}}
						return []ast.Stmt{&ast.ExprStmt{X: nc}}
					}
				}
			}
		case *ast.GoStmt:
			changed = true
			stats["go"]++
			call := st.Call
			if fl, ok := call.Fun.(*ast.FuncLit); ok && len(call.Args) == 0 {
				return []ast.Stmt{&ast.ExprStmt{X: &ast.CallExpr{Fun: sel("simrt", "Go"), Args: []ast.Expr{fl, site(fset, root, st.Pos())}}}}
			}
			// general: bind fun and args to temporaries so evaluation time is unchanged
			var stmts []ast.Stmt
			var lhs, rhs []ast.Expr
			fn := call.Fun
			if _, isLit := fn.(*ast.FuncLit); !isLit {
				lhs = append(lhs, ast.NewIdent("simrtF"))
				rhs = append(rhs, fn)
				fn = ast.NewIdent("simrtF")
			}
			var args []ast.Expr
			for i, a := range call.Args {
				inline := false
				switch v := a.(type) {
				case *ast.BasicLit:
					inline = true
				case *ast.Ident:
					if v.Name == "nil" || v.Name == "true" || v.Name == "false" {
						inline = true
					}
				}
				if inline {
					args = append(args, a)
					continue
				}
				name := fmt.Sprintf("simrtA%d", i)
				lhs = append(lhs, ast.NewIdent(name))
				rhs = append(rhs, a)
				args = append(args, ast.NewIdent(name))
			}
			if len(lhs) > 0 {
				stmts = append(stmts, &ast.AssignStmt{Lhs: lhs, Tok: token.DEFINE, Rhs: rhs})
			}
			inner := &ast.CallExpr{Fun: fn, Args: args}
			if call.Ellipsis != token.NoPos {
				inner.Ellipsis = 1
			}
			lit := &ast.FuncLit{Type: &ast.FuncType{Params: &ast.FieldList{}}, Body: &ast.BlockStmt{List: []ast.Stmt{&ast.ExprStmt{X: inner}}}}
			stmts = append(stmts, &ast.ExprStmt{X: &ast.CallExpr{Fun: sel("simrt", "Go"), Args: []ast.Expr{lit, site(fset, root, st.Pos())}}})
			return []ast.Stmt{&ast.BlockStmt{List: stmts}}
		case *ast.LabeledStmt:
			if fs, ok := st.Stmt.(*ast.ForStmt); ok && (fs.Cond == nil || (fs.Init == nil && fs.Post == nil)) {
				changed = true
				stats["for"]++
				fs.Body.List = append([]ast.Stmt{yieldStmt(fset, root, fs.Pos())}, fs.Body.List...)
			}
			if gotoTargets[st.Label.Name] {
				changed = true
				stats["goto"]++
				inner := st.Stmt
				st.Stmt = yieldStmt(fset, root, st.Pos())
				return append([]ast.Stmt{st}, rewriteStmt(inner)...)
			}
		case *ast.ForStmt:
			if st.Cond == nil || (st.Init == nil && st.Post == nil) {
				changed = true
				stats["for"]++
				st.Body.List = append([]ast.Stmt{yieldStmt(fset, root, st.Pos())}, st.Body.List...)
			}
		}
		// R6: a statement that performs a sync/atomic call gets a yield in front
		switch s.(type) {
		case *ast.ExprStmt, *ast.AssignStmt, *ast.IfStmt, *ast.ReturnStmt, *ast.IncDecStmt:
			if containsAtomicCall(s) {
				changed = true
				stats["atomic"]++
				return []ast.Stmt{yieldStmt(fset, root, s.Pos()), s}
			}
		}
		// R8: in the packages that keep files shared between sessions, every file operation is a scheduling
		// point (another session's system call can land between two of this one's)
		if fileSeam {
			switch s.(type) {
			case *ast.ExprStmt, *ast.AssignStmt, *ast.IfStmt, *ast.ReturnStmt:
				if containsFileCall(s) {
					changed = true
					stats["fileop"]++
					return []ast.Stmt{yieldStmt(fset, root, s.Pos()), s}
				}
			}
		}
		// R4: re-park after a wake-up by another task or a timer
		if sl, ok := s.(*ast.SelectStmt); ok && blockingSelect(sl) {
			changed = true
			stats["wake"]++
			for _, c := range sl.Body.List {
				cc := c.(*ast.CommClause)
				cc.Body = append([]ast.Stmt{yieldStmt(fset, root, cc.Pos())}, cc.Body...)
			}
			return []ast.Stmt{s}
		}
		if isBlockingWake(s) {
			changed = true
			stats["wake"]++
			return []ast.Stmt{s, yieldStmt(fset, root, s.Pos())}
		}
		return []ast.Stmt{s}
	}
	rewriteList := func(list []ast.Stmt) []ast.Stmt {
		var out []ast.Stmt
		for _, s := range list {
			out = append(out, rewriteStmt(s)...)
		}
		return out
	}
	var walk func(n ast.Node)
	walk = func(n ast.Node) {
		ast.Inspect(n, func(m ast.Node) bool {
			switch b := m.(type) {
			case *ast.BlockStmt:
				if b != nil {
					for _, s := range b.List {
						walk(s)
					}
					b.List = rewriteList(b.List)
				}
				return false
			case *ast.CaseClause:
				for _, s := range b.Body {
					walk(s)
				}
				b.Body = rewriteList(b.Body)
				return false
			case *ast.CommClause:
				for _, s := range b.Body {
					walk(s)
				}
				b.Body = rewriteList(b.Body)
				return false
			}
			return true
		})
	}
	walk(f)
	if !changed {
		return
	}
	spec := &ast.ImportSpec{Path: &ast.BasicLit{Kind: token.STRING, Value: fmt.Sprintf("%q", simPath)}}
	f.Decls = append([]ast.Decl{&ast.GenDecl{Tok: token.IMPORT, Specs: []ast.Spec{spec}}}, f.Decls...)
	if usesTimeNow {
		// keep the time import used when Now() was its only use
		f.Decls = append(f.Decls, &ast.GenDecl{Tok: token.VAR, Specs: []ast.Spec{&ast.ValueSpec{Names: []*ast.Ident{ast.NewIdent("_")}, Type: sel("time", "Duration")}}})
	}
	var buf bytes.Buffer
	if err := format.Node(&buf, fset, f); err != nil {
		fmt.Fprintln(os.Stderr, "mxinstr: format error", path, err)
		os.Exit(2)
	}
	os.WriteFile(path, buf.Bytes(), 0644)
	stats["files"]++
}
