#!/bin/bash
# evalmut.sh <patch.diff> <property id> [cases]: apply a seeded change to /repo, run the property's quick
# check against it, undo the change. Output (evidence, replays) goes to /var/tmp/mxsim-mut-out/<id>/.
# Never leaves /repo modified.
set -u
patch=$1; id=$2; n=${3:-}
cd /repo || exit 2
if [ -n "$(git status --porcelain)" ]; then echo "evalmut: /repo is not clean"; exit 2; fi
git apply "$patch" || { echo "evalmut: patch does not apply"; exit 2; }
trap 'cd /repo && git checkout -q -- . && git clean -fdq' EXIT
out=/var/tmp/mxsim-mut-out/$id; mkdir -p "$out"
cd /verif
if [ -n "$n" ]; then export MXSIM_N=$n; fi
MXSIM_OUT=$out bin/mxsim check "$id" --tier quick 2>&1 | grep -v "^mxsim: instrumented" | cut -c1-400 | tail -12
echo "evalmut: exit=${PIPESTATUS[0]}"
