#!/bin/bash
# prep.sh <scratch dir>: copy /repo's working tree, add simrt, instrument
set -e
S=$1
rm -rf "$S/tree"; mkdir -p "$S"
rsync -a --exclude .git --exclude /images /repo/ "$S/tree/"
mkdir -p "$S/tree/utils/simrt"; cp /verif/simrt/*.go "$S/tree/utils/simrt/"
/verif/bin/mxinstr "$S/tree"
