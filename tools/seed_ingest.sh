#!/bin/bash
# seed_ingest.sh <seed-id> <prop> <patch> <demo-file> <dest-dir-in-tree> <run-regex> <pkg> <notes.md> [cases] [extra test pkgs...]
# verify the seeded change in a scratch worktree, run the property's quick check against it (applied to /repo and
# undone), and file everything under /verif/seeded/<seed-id>/.
set -u
sid=$1; prop=$2; patch=$3; demo=$4; dest=$5; run=$6; pkg=$7; notes=$8; n=${9:-}; shift 9 2>/dev/null || shift $#
D=/verif/seeded/$sid; mkdir -p $D/demo
cp "$patch" $D/patch.diff; cp "$demo" $D/demo/; [ -f "$notes" ] && cp "$notes" $D/notes.md
/verif/tools/verify_seed.sh $D/patch.diff "$demo" "$dest" "$run" "$pkg" "$@" > $D/verify.log 2>&1
/verif/tools/evalmut.sh $D/patch.diff "$prop" $n > $D/check.log 2>&1
rc=$(grep -o 'evalmut: exit=[0-9]*' $D/check.log | cut -d= -f2)
clauses=$(grep -o '^mxsim: [a-z-]*/[^:]*' $D/check.log | sed 's/^mxsim: //' | sort -u | tr '\n' ';')
python3 - "$D" "$sid" "$prop" "$dest" "$run" "$pkg" "$rc" "$clauses" "$n" <<'P'
import json,sys,re
D,sid,prop,dest,run,pkg,rc,clauses,n=sys.argv[1:10]
v=open(D+'/verify.log').read()
def sect(a,b):
    i=v.find(a); j=v.find(b) if b else len(v)
    return v[i:j] if i>=0 else ''
m={
 "seed_id":sid,"property":prop,
 "breaks": "see notes.md",
 "needs_to_manifest": "see notes.md",
 "demonstration": {"file":"demo/"+__import__('os').listdir(D+'/demo')[0],"place_in_tree":dest,"command":"go test -count=1 -vet=off -run '%s' %s"%(run,pkg)},
 "confirmed_in_scratch_worktree": {
   "demo_passes_without_change": 'ok ' in sect('== without the change','== with the change: build') and 'FAIL' not in sect('== without the change','== with the change: build'),
   "builds_with_change": sect('== with the change: build','== with the change: demo').count('\n')<=1,
   "demo_fails_with_change": 'FAIL' in sect('== with the change: demo','== with the change: existing'),
   "existing_tests_pass_with_change": 'FAIL' not in sect('== with the change: existing',None),
 },
 "check_run": {"command":"tools/evalmut.sh seeded/%s/patch.diff %s %s (git -C /repo apply; check.sh %s quick; git checkout)"%(sid,prop,n,prop),"exit_code":int(rc) if rc else None,"detected": rc=='1',"clauses":[c for c in clauses.split(';') if c]},
}
json.dump(m,open(D+'/meta.json','w'),indent=1)
print(json.dumps(m['confirmed_in_scratch_worktree']), m['check_run']['exit_code'], m['check_run']['clauses'])
P
