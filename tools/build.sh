#!/bin/bash
# builds /verif/bin/{mxinstr,mxsim} offline
set -e
export GOFLAGS=-mod=mod GOPROXY=off GOSUMDB=off GOTOOLCHAIN=local
cd /verif/tools
mkdir -p /verif/bin
go1.26.8 build -o /verif/bin/mxinstr ./cmd/mxinstr
go1.26.8 build -o /verif/bin/mxsim ./cmd/mxsim
