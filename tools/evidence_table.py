#!/usr/bin/env python3
"""evidence_table.py <dir-or-file>...: markdown table from evidence files (used for DESIGN sections 12 and 12.1).
A directory argument is searched for evidence/<ID>.json and <ID>/evidence/<ID>.json."""
import glob, json, os, sys

def files(args):
    out = []
    for a in args:
        if os.path.isfile(a):
            out.append(a)
            continue
        out += sorted(glob.glob(os.path.join(a, 'evidence', 'C*.json')))
        out += sorted(glob.glob(os.path.join(a, 'C*', 'evidence', 'C*.json')))
    return out

print('| id | tier | seeds | cases | distinct non-trivial traces | decisions | simulated s | faults fired | verdicts | new violations | known findings hit | determinism re-runs (mismatches) | cases/hour | wall s |')
print('|---|---|---|---|---|---|---|---|---|---|---|---|---|---|')
rows = {}
for f in files(sys.argv[1:]):
    e = json.load(open(f))
    c = e['coverage']
    faults = ', '.join(f'{k} {v}' for k, v in sorted((c.get('faults_fired') or {}).items())) or '-'
    if c.get('clock_jumps_injected'):
        faults = (faults + ', ' if faults != '-' else '') + f"clock jumps {c['clock_jumps_injected']}"
    verd = ', '.join(f'{k} {v}' for k, v in sorted((c.get('verdicts') or {}).items()))
    nv = c.get('new_violations')
    nv = '; '.join(sorted({(v.get('clause') or '')[:70] for v in nv})) if nv else '-'
    kf = c.get('known_findings_hit') or {}
    kf = ', '.join(f'{k} {v}' for k, v in sorted(kf.items())) or '-'
    seeds = c.get('seeds')
    seeds = len(seeds) if isinstance(seeds, list) else seeds
    rows[e['property_id']] = (f"| {e['property_id']} | {e.get('tier')} | {seeds} | {c.get('evaluations')} | {c.get('distinct_nontrivial')} | {c.get('decisions_total')} | "
          f"{int(c.get('simulated_seconds') or 0)} | {faults} | {verd} | {nv} | {kf} | "
          f"{c.get('determinism_reruns')} ({c.get('determinism_mismatches')}) | {int(c.get('runs_per_hour') or 0)} | {int(e.get('wall_s') or 0)} |")
for k in sorted(rows):
    print(rows[k])
